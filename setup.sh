#!/bin/sh
# Run once after a fresh restore (offline): builds the simulator's own pieces and warms the
# per-flavour build caches of /repo under /verif/.cache so that the quick checks are incremental.
# Nothing is fetched; nothing is kept under /tmp; /repo is not written to.
set -e
cd "$(dirname "$0")"
exec /usr/bin/python3 tools/setup.py "$@"
