#!/usr/bin/python3
"""Large-sample determinism proof (DESIGN.md 2.5): for each simulator, the same seeds are executed several times
- with 1, 4 and 16 workers (which changes which runs share a process and in which order a process sees them),
- under two PYTHONHASHSEED values (C19, C20),
and the per-run trace hashes (C19/C20) / per-chunk hashes (C18) must be identical across all executions.

  tools/determinism.py [C18] [C19] [C20] [--runs N]     writes out/determinism.json; exit 0 iff no mismatch
"""
import json
import os
import sys
import time

VERIF = os.path.dirname(os.path.dirname(os.path.abspath(__file__)))
sys.path.insert(0, VERIF)
from sim import build, common, pyfleet  # noqa: E402


def c18(nruns, base):
    from sim.c18 import run18
    exe = run18.build_sim()
    ref = None
    out = {"runs": nruns, "executions": []}
    for w in (1, 4, 16):
        b = run18.Batch(exe, base, nruns, w, 1 << 62).run()
        out["executions"].append({"workers": w, "chunks": len(b.chunks), "violating_runs": len(b.viol)})
        if ref is None:
            ref = b.chunks
        elif b.chunks != ref:
            out["mismatch"] = [lo for lo in ref if b.chunks.get(lo) != ref[lo]][:10]
    return out


def py(prop, nruns, base):
    if prop == "C19":
        from sim.c19 import run19 as mod
        configs = [("asan", ["--mode", "plain"]), ("asan", ["--mode", "faults"])]
    else:
        from sim.c20 import run20 as mod
        configs = [("tsan", []), ("asan", [])]
    out = {"runs": nruns, "executions": []}
    for flavour, extra in configs:
        exe, env, bd = pyfleet.prepare(flavour)
        ref = None
        for w, hs in ((1, "0"), (4, "0"), (16, "0"), (16, "987654321"), (4, "31337")):
            e2 = dict(env)
            e2["PYTHONHASHSEED"] = hs
            b = pyfleet.HostBatch(flavour, mod.DRIVER, base, nruns, w, 50, exe, e2, extra_args=extra)
            b.keep_run_hashes = True
            b.run()
            rec = {"flavour": flavour, "args": extra, "workers": w, "PYTHONHASHSEED": hs, "hashes": len(b.run_hash),
                   "violating_runs": len(b.viol), "worker_deaths": b.deaths}
            if ref is None:
                ref = b.run_hash
            else:
                bad = [i for i in ref if b.run_hash.get(i) != ref[i]]
                rec["mismatching_runs"] = bad[:10]
                if bad:
                    out.setdefault("mismatch", []).extend(bad[:10])
            out["executions"].append(rec)
    return out


def main():
    args = [a for a in sys.argv[1:] if a in ("C18", "C19", "C20")]
    nruns = int(sys.argv[sys.argv.index("--runs") + 1]) if "--runs" in sys.argv else 10000
    props = args or ["C18", "C19", "C20"]
    base = int(os.environ.get("VERIF_SEED", "1"))
    res = {}
    t0 = time.time()
    for p in props:
        res[p] = c18(nruns * 5, base) if p == "C18" else py(p, nruns, base)
        print(p, "mismatch" in res[p] and "MISMATCH %r" % res[p]["mismatch"] or "deterministic", json.dumps(res[p]["executions"])[:400], flush=True)
    res["wall_s"] = round(time.time() - t0)
    os.makedirs(os.path.join(VERIF, "out"), exist_ok=True)
    with open(os.path.join(VERIF, "out", "determinism.json"), "w") as f:
        json.dump(res, f, indent=1)
    return 1 if any("mismatch" in v for v in res.values() if isinstance(v, dict)) else 0


if __name__ == "__main__":
    sys.exit(main())
