#!/usr/bin/python3
"""Sensitivity self-test: hand-written mutants (DESIGN.md section 8), each applied to a scratch copy of
/repo under /var/tmp, the property's quick check pointed at the copy (VERIF_REPO), result recorded, copy
and its build caches removed.  Registered checks never use VERIF_REPO.

  tools/selftest.py [name ...]        run the named mutants (default: all); writes out/selftest.json
"""
import json
import os
import shutil
import subprocess
import sys
import time

VERIF = os.path.dirname(os.path.dirname(os.path.abspath(__file__)))
PY = "src/python/PyImath/"

MUTANTS = [
    # name, property, file, old, new, description
    ("c18-srand48-limbs-swapped", "C18", "src/Imath/ImathRandom.cpp",
     "    staticState[2] = (unsigned short) (seed >> 16);\n    staticState[1] = (unsigned short) (seed);",
     "    staticState[1] = (unsigned short) (seed >> 16);\n    staticState[2] = (unsigned short) (seed);",
     "srand48 stores the seed halves in the wrong limbs (never exercised by testRandom)"),
    ("c18-rand48-nextb-uses-global", "C18", "src/Imath/ImathRandom.h",
     "    return nrand48 (_state) & 1;", "    return lrand48 () & 1;",
     "Rand48::nextb draws from the hidden global generator: cross-talk between generator objects"),
    ("c18-rand48-init-seeds-global", "C18", "src/Imath/ImathRandom.h",
     "    _state[2] = (unsigned short int) (seed & 0xFFFF);\n}", "    _state[2] = (unsigned short int) (seed & 0xFFFF);\n    srand48 (long (seed));\n}",
     "Rand48::init also reseeds the hidden global generator: only interleaved users of drand48/lrand48 see it"),
    ("c18-erand48-high-limb-shift", "C18", "src/Imath/ImathRandom.cpp",
     "(uint64_t (state[2]) >> 12);", "(uint64_t (state[2]) >> 11);",
     "replicated mantissa bits taken one position too high: error 2^-52..2^-48 scale, still in [0,1)?"),
    ("c19-setitem-scalar-no-writable-check", "C19", PY + "PyImathFixedArray.h",
     "    setitem_scalar(PyObject *index, const T &data)\n    {\n        if (!_writable)\n            throw std::invalid_argument(\"Fixed array is read-only.\");\n",
     "    setitem_scalar(PyObject *index, const T &data)\n    {\n",
     "a[i] = x no longer checks the read-only flag"),
    ("c19-mask-ctor-drops-readonly", "C19", PY + "PyImathFixedArray.h",
     "        : _ptr(f._ptr), _stride(f._stride), _writable(f._writable), _handle(f._handle), _unmaskedLength(0)",
     "        : _ptr(f._ptr), _stride(f._stride), _writable(true), _handle(f._handle), _unmaskedLength(0)",
     "a masked reference of a read-only array is writable"),
    ("c19-canonical-index-off-by-one", "C19", PY + "PyImathFixedArray.h",
     "        if (index >= len() || index < 0) {\n            PyErr_SetString(PyExc_IndexError, \"Index out of range\");",
     "        if (index > len() || index < 0) {\n            PyErr_SetString(PyExc_IndexError, \"Index out of range\");",
     "a[len] is accepted: one element past the end"),
    ("c19-varray-row-lifetime-reintroduced", "C19", PY + "PyImathFixedVArray.cpp",
     "    return FixedArray<T>(data.empty() ? nullptr : &data[0], data.size(), 1, _handle, _writable);",
     "    return FixedArray<T>(data.empty() ? nullptr : &data[0], data.size(), 1, _writable);",
     "re-introduces the repaired defect: views derived from a variable-array row do not keep the storage alive"),
    ("c19-buffer-stride-ignores-interleave", "C19", PY + "PyImathBufferProtocol.cpp",
     "        stride[0] = atomicSize() * FixedArrayWidth<T>::value * interleave;",
     "        stride[0] = atomicSize() * FixedArrayWidth<T>::value;",
     "exported buffer of a strided view (component view) describes contiguous memory"),
    ("c20-extendby-uses-box-0", "C20", PY + "PyImathBox.cpp",
     "            boxes[tid].extendBy(points[p]);", "            boxes[0].extendBy(points[p]);",
     "all sub-ranges accumulate into boxes[0]: serially right, a data race when concurrent"),
    ("c20-readonly-direct-access-ignores-stride", "C20", PY + "PyImathFixedArray.h",
     "        const T&  operator[] (size_t i) const { return _ptr[i*_stride]; }\n\n      private:\n        const T*  _ptr;\n\n      protected:\n        const size_t  _stride;\n    };\n\n    class WritableDirectAccess",
     "        const T&  operator[] (size_t i) const { return _ptr[i]; }\n\n      private:\n        const T*  _ptr;\n\n      protected:\n        const size_t  _stride;\n    };\n\n    class WritableDirectAccess",
     "the read accessor of the vectorised operations ignores the stride: wrong only for strided operands (component views)"),
    ("c20-vectorized-op1-ignores-start", "C20", PY + "PyImathAutovectorize.h",
     None, None, "the first VectorizedOperation1::execute loop starts at 0 instead of start"),
    ("c20-quat-task-shared-scratch", "C20", PY + "PyImathQuat.cpp",
     None, None, "a hand-written quaternion task keeps its per-element scratch in a static: serially right, racy"),
]


def apply_special(name, text):
    if name == "c20-vectorized-op1-ignores-start":
        i = text.index("struct VectorizedOperation1 ")
        j = text.index("for (size_t i = start; i < end; ++i)", i)
        return text[:j] + "for (size_t i = 0; i < end; ++i)" + text[j + len("for (size_t i = start; i < end; ++i)"):]
    if name == "c20-quat-task-shared-scratch":
        old = "            result[i] = va[i].axis(); "
        if old not in text:
            raise KeyError("pattern for " + name)
        return text.replace(old, "            { static IMATH_NAMESPACE::Vec3<T> scratch; scratch = va[i].axis(); result[i] = scratch; }", 1)
    raise KeyError(name)


def run(m):
    name, prop, path, old, new, desc = m
    copy = "/var/tmp/selftest-" + name
    subprocess.run(["rm", "-rf", copy])
    subprocess.run(["rsync", "-a", "--exclude=/_build", "--exclude=/.git", "/repo/", copy + "/"], check=True)
    p = os.path.join(copy, path)
    text = open(p).read()
    if old is None:
        text2 = apply_special(name, text)
    else:
        if text.count(old) != 1:
            return {"name": name, "property": prop, "result": "PATTERN-NOT-FOUND (%d)" % text.count(old)}
        text2 = text.replace(old, new)
    open(p, "w").write(text2)
    env = dict(os.environ, VERIF_REPO=copy, VERIF_RUNS=os.environ.get("SELFTEST_RUNS", "0.5"))
    t0 = time.time()
    r = subprocess.run([os.path.join(VERIF, "check"), prop], env=env, capture_output=True, text=True, cwd=VERIF)
    out = r.stdout
    sigs = [l.strip()[len("signature: "):] for l in out.split("\n") if l.strip().startswith("signature: ")]
    res = {"name": name, "property": prop, "description": desc, "exit": r.returncode, "caught": r.returncode == 1,
           "signatures": sigs[:6], "wall_s": round(time.time() - t0), "tail": out[-600:] if r.returncode not in (0, 1) else ""}
    # remove the copy and its caches
    subprocess.run(["rm", "-rf", copy])
    import hashlib
    tag = hashlib.sha1(copy.encode()).hexdigest()[:8]
    for f in os.listdir(os.path.join(VERIF, ".cache")):
        if f.endswith(tag) or ("-" + tag) in f:
            subprocess.run(["rm", "-rf", os.path.join(VERIF, ".cache", f)])
    return res


def main():
    names = sys.argv[1:]
    todo = [m for m in MUTANTS if not names or m[0] in names]
    outp = os.path.join(VERIF, "out", "selftest.json")
    os.makedirs(os.path.dirname(outp), exist_ok=True)
    results = []
    if os.path.exists(outp):
        try:
            results = [r for r in json.load(open(outp)) if r["name"] not in [m[0] for m in todo]]
        except Exception:
            results = []
    for m in todo:
        res = run(m)
        print(json.dumps(res), flush=True)
        results.append(res)
        json.dump(results, open(outp, "w"), indent=1)


if __name__ == "__main__":
    main()
