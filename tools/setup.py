#!/usr/bin/python3
"""setup: warm every build flavour (sequentially; each build uses all cores) and build the hosts."""
import os
import sys
import time

sys.path.insert(0, os.path.dirname(os.path.dirname(os.path.abspath(__file__))))
from sim import build

t0 = time.time()
flavours = sys.argv[1:] or ["core", "tsan", "asan"]
for fl in flavours:
    build.ensure(fl)
try:
    from sim.c18 import run18
    run18.build_sim()
except Exception as e:  # a tree that does not build is reported by the checks themselves
    print("setup: C18 simulator not built:", e)
try:
    from sim import hosts
    hosts.ensure_all()
except ImportError:
    pass
print("setup done in %.0fs" % (time.time() - t0))
