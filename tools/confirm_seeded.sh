#!/bin/sh
# Confirm a seeded defect produced in a scratch worktree: with the change the 38 pinned tests pass and the
# demonstration fails; without it the demonstration passes.  usage: confirm_seeded.sh <worktree>
WT=$1
cd "$WT" || exit 2
git diff --quiet -- src && { echo "no change applied in $WT"; exit 2; }
echo "== with the change: build + ctest"
cmake -S "$WT" -B "$WT/_b" -G Ninja -DCMAKE_BUILD_TYPE=Release >/dev/null && cmake --build "$WT/_b" -j16 >/dev/null || { echo "BUILD FAILED"; exit 1; }
ctest --test-dir "$WT/_b" -j16 --timeout 900 2>&1 | tail -3
echo "== with the change: demo (must fail)"
[ -d "$WT/_bp" ] && cmake --build "$WT/_bp" -j16 >/dev/null
sh "$WT/_seeded/run.sh" > "$WT/_seeded/confirm_with.log" 2>&1; RC1=$?; tail -3 "$WT/_seeded/confirm_with.log"; echo "demo rc=$RC1"
echo "== without the change: demo (must pass)"
# (not `git stash`: the stash list is shared by all worktrees of the repository)
git diff -- src > "$WT/_seeded/.confirm.patch"
git apply -R "$WT/_seeded/.confirm.patch"
cmake --build "$WT/_b" -j16 >/dev/null
[ -d "$WT/_bp" ] && cmake --build "$WT/_bp" -j16 >/dev/null
sh "$WT/_seeded/run.sh" > "$WT/_seeded/confirm_without.log" 2>&1; RC2=$?; tail -3 "$WT/_seeded/confirm_without.log"; echo "demo rc=$RC2"
git apply "$WT/_seeded/.confirm.patch" && rm -f "$WT/_seeded/.confirm.patch"
[ "$RC1" -ne 0 ] && [ "$RC2" -eq 0 ] && echo "CONFIRMED" || echo "NOT CONFIRMED"
