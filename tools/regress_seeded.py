#!/usr/bin/python3
"""Regression over the seeded changes: does the check, as committed now, still catch every change under seeded/ ?
(and stay silent on every property-preserving change under controls/ ?)

One lane per property; each lane owns one scratch copy of /repo under /var/tmp (so that the flavour builds are
incremental from one change to the next), applies one patch at a time with patch(1), points the property's quick
check at the copy through VERIF_REPO, records exit code and signatures, and reverts the patch.  /repo itself is never
touched.  Registered checks never use VERIF_REPO.

  tools/regress_seeded.py [C18] [C19] [C20] [--scale 0.5] [--only substring]   writes out/regress_seeded.json
"""
import hashlib
import json
import os
import subprocess
import sys
import threading
import time

VERIF = os.path.dirname(os.path.dirname(os.path.abspath(__file__)))
OUT = os.path.join(VERIF, "out", "regress_seeded.json")
lock = threading.Lock()
results = {}


def sh(cmd, **kw):
    return subprocess.run(cmd, shell=True, capture_output=True, text=True, **kw)


def lane(prop, items, scale):
    copy = "/var/tmp/regress-" + prop
    sh("rm -rf %s" % copy)
    sh("rsync -a --exclude=/_build --exclude=/.git /repo/ %s/" % copy)
    env = dict(os.environ, VERIF_REPO=copy, VERIF_RUNS=str(scale), VERIF_WORKERS=os.environ.get("REGRESS_WORKERS", "5"))
    for kind, name in items:
        d = os.path.join(VERIF, kind, name)
        t0 = time.time()
        r = sh("patch -p1 --no-backup-if-mismatch -d %s < %s/patch.diff" % (copy, d))
        if r.returncode != 0:
            # the patch was written against an older /repo (before later fix: commits touched the same lines)
            sh("rsync -a --delete --exclude=/_build --exclude=/.git /repo/ %s/" % copy)
            res = {"kind": kind, "property": prop, "result": "patch-does-not-apply-any-more", "detail": (r.stdout + r.stderr)[-300:]}
        else:
            c = subprocess.run([os.path.join(VERIF, "check"), prop], env=env, capture_output=True, text=True, cwd=VERIF)
            sigs = [l.strip()[len("signature: "):] for l in c.stdout.split("\n") if l.strip().startswith("signature: ")]
            res = {"kind": kind, "property": prop, "exit": c.returncode, "violation_lines": c.stdout.count("\nVIOLATION "),
                   "signatures": sigs[:5], "tail": c.stdout[-400:] if c.returncode not in (0, 1) else ""}
            res["result"] = ("caught" if c.returncode == 1 else "MISSED" if c.returncode == 0 else "exit-%d" % c.returncode) if kind == "seeded" \
                else ("silent" if c.returncode == 0 and "VIOLATION" not in c.stdout else "FALSE-ALARM")
            sh("rsync -a --delete --exclude=/_build --exclude=/.git /repo/ %s/" % copy)
        res["wall_s"] = round(time.time() - t0)
        with lock:
            results[name] = res
            print(json.dumps({name: {k: v for k, v in res.items() if k != "tail"}}), flush=True)
            with open(OUT, "w") as f:
                json.dump(results, f, indent=1, sort_keys=True)
    sh("rm -rf %s" % copy)
    tag = hashlib.sha1(copy.encode()).hexdigest()[:8]
    for f in os.listdir(os.path.join(VERIF, ".cache")):
        if f.endswith(tag) or ("-" + tag) in f:
            sh("rm -rf %s" % os.path.join(VERIF, ".cache", f))


def main():
    args = sys.argv[1:]
    props = [a for a in args if a in ("C18", "C19", "C20")] or ["C18", "C19", "C20"]
    scale = float(args[args.index("--scale") + 1]) if "--scale" in args else 0.5
    only = args[args.index("--only") + 1] if "--only" in args else ""
    os.makedirs(os.path.dirname(OUT), exist_ok=True)
    if os.path.exists(OUT) and only:
        results.update(json.load(open(OUT)))
    lanes = []
    for p in props:
        items = [(kind, n) for kind in ("seeded", "controls") if os.path.isdir(os.path.join(VERIF, kind))
                 for n in sorted(os.listdir(os.path.join(VERIF, kind))) if n.startswith(p + "-") and only in n]
        t = threading.Thread(target=lane, args=(p, items, scale))
        t.start()
        lanes.append(t)
    for t in lanes:
        t.join()
    bad = {n: r["result"] for n, r in results.items() if r["result"] not in ("caught", "silent", "patch-does-not-apply-any-more")}
    print("SUMMARY %d changes, not as expected: %s" % (len(results), json.dumps(bad)), flush=True)
    return 1 if bad else 0


if __name__ == "__main__":
    sys.exit(main())
