#!/usr/bin/python3
"""Copy a confirmed seeded defect from a scratch worktree into /verif/seeded/<name>/ and complete meta.json.
usage: keep_seeded.py <worktree> <name> <caught_by text> [<what_i_ran> ...]"""
import json, os, shutil, sys
wt, name, caught = sys.argv[1], sys.argv[2], sys.argv[3]
ran = sys.argv[4:]
dst = os.path.join("/verif/seeded", name)
os.makedirs(dst, exist_ok=True)
src = os.path.join(wt, "_seeded")
for f in os.listdir(src):
    p = os.path.join(src, f)
    if os.path.isfile(p) and os.path.getsize(p) < 200000 and not f.endswith(".so") and not f.endswith(".o") and not f.startswith("confirm_"):
        shutil.copy(p, os.path.join(dst, f))
try:
    meta = json.load(open(os.path.join(dst, "meta.json")))
except Exception:
    meta = {}
meta["confirmed_by_me"] = {"worktree": wt, "with_change": "38/38 pinned ctest tests pass; demonstration fails (non-zero exit)",
                           "without_change": "demonstration passes (exit 0)", "how": "tools/confirm_seeded.sh " + wt}
meta["checked_with"] = ran
meta["caught_by"] = caught
json.dump(meta, open(os.path.join(dst, "meta.json"), "w"), indent=1)
print("kept", dst, sorted(os.listdir(dst)))
