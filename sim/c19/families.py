"""C19: the other container families named by the property - FixedMatrix, FixedArray2D, FixedVArray,
StringArray/WstringArray - as mix-ins of the interpreter (driver.Sim).  Each family has its own
handle kinds, op table, generator and model; matrix and variable-array rows are ordinary 1-D handles,
so every 1-D operation of driver.py applies to them too."""
import imath

from sim import pytypes as PT

MATRIX_TYPES = {"IntMatrix": "IntArray", "FloatMatrix": "FloatArray", "DoubleMatrix": "DoubleArray"}
A2D_TYPES = {"IntArray2D": "IntArray", "FloatArray2D": "FloatArray", "DoubleArray2D": "DoubleArray",
             "Color4cArray2D": "C4cArray", "Color4fArray2D": "C4fArray"}
VARRAY_TYPES = {"VIntArray": "IntArray", "VFloatArray": "FloatArray", "VV2iArray": "V2iArray", "VV2fArray": "V2fArray"}
STRING_TYPES = ["StringArray", "WstringArray"]
STRINGS = ["", "a", "b", "ab", "ba", "abc", "a b", "x" * 40, "A", "0"]


def sval(j, op):
    """string number j of the op's alphabet: the 10 hand-picked ones, then (long runs only) 's10', 's11', ..."""
    j %= op.get("amod", 10)
    return STRINGS[j] if j < len(STRINGS) else "s%d" % j

FAMILY_OPS = {
    "matrix": [(6, "m_new"), (8, "m_row"), (6, "m_slice"), (7, "m_set_s"), (7, "m_set_v"), (5, "m_set_m"), (5, "m_iop"), (4, "m_bad"),
               (6, "get"), (5, "set_s"), (4, "slice"), (5, "mask"), (4, "alias"), (4, "iop"), (3, "mv"), (3, "ro"), (6, "release"), (2, "gcp")],
    "array2d": [(6, "d_new"), (8, "d_item"), (8, "d_slice"), (7, "d_set_s"), (6, "d_set_a"), (5, "d_set_1d"), (5, "d_mask_get"),
                (5, "d_mask_set"), (5, "d_iop"), (5, "d_comp"), (4, "d_ifelse"), (4, "d_binop"), (4, "elem_w"), (4, "d_bad"), (4, "release"), (2, "gcp")],
    "varray": [(6, "v_new"), (8, "v_row"), (6, "v_slice"), (7, "v_mask"), (7, "v_set_row"), (8, "v_set_v"), (5, "v_set_m"), (5, "v_size"), (4, "v_sizeh"), (5, "vsz_set"), (3, "vsz_get"),
               (4, "v_resize"), (4, "v_ro"), (4, "v_bad"), (6, "get"), (5, "set_s"), (4, "iop"), (3, "ro"), (5, "mask"), (4, "alias"), (3, "comp"),
               (3, "slice"), (2, "mv"), (8, "release"), (3, "gcp")],
    "string": [(6, "s_new"), (9, "s_get"), (6, "s_slice"), (5, "s_mask"), (9, "s_set"), (5, "s_set_m"), (5, "s_set_v"), (4, "s_eq"),
               (4, "s_ro"), (4, "s_bad"), (6, "release"), (2, "gcp")],
}


def gen_family_op(r, fam, o, op, maxn, gen_slice):
    # L: largest dimension; 5 in ordinary runs, maxn in the few "long" runs of the size swarm (driver.gen_plan)
    L = maxn if maxn > 12 else 5
    big = L > 5
    if o in ("m_new", "d_new"):
        op["t"] = r.choice(sorted(MATRIX_TYPES if o == "m_new" else A2D_TYPES))
        op["r"], op["c"] = r.range(0 if o == "d_new" else 1, L), r.range(0 if o == "d_new" else 1, L)
    elif o in ("m_row", "v_row", "s_get"):
        op["i"] = r.range(-L - 1, L)
    elif o in ("m_slice", "v_slice", "s_slice"):
        op["s"] = gen_slice(r, L)
    elif o in ("m_set_s", "m_set_v", "m_set_m", "v_set_row", "v_set_v", "s_set", "s_set_v", "v_size", "v_resize", "vsz_set", "vsz_get"):
        op["idx"] = r.range(-L - 1, L) if r.chance(0.5 if not big else 0.2) else gen_slice(r, L)
        op["dlen"] = r.weighted([(8, 0), (1, 1), (1, -1)])
        op["k"] = r.below(64)
        if big:
            op["amod"] = r.choice([10, 37, 101])
    elif o in ("m_bad", "v_bad", "s_bad", "d_bad"):
        op["idx"] = r.choice([2 ** 31, -2 ** 31, 2 ** 32, 2 ** 32 + 1, -2 ** 32, 2 ** 63 - 1, -2 ** 63, 2 ** 64, -2 ** 64, 7, -8])
        op["how"] = r.choice(["get", "set", "set_v"])
        op["k"] = r.below(64)
    elif o == "d_comp":
        op["c"] = r.below(4)
    elif o in ("d_ifelse", "d_binop"):
        op["m"] = [r.choice([0, 1, 1, 0, 2, -1]) for _ in range(30 if not big else L * L + 5)]
        op["form"] = r.choice(["scalar", "a2d", "a2d", "badshape"])
        op["name"] = r.choice(["__add__", "__sub__"])
    elif o in ("m_iop", "d_iop"):
        op["name"] = r.choice(["__iadd__", "__isub__"])
        op["rhs"] = r.choice(["scalar", "same", "same", "badshape"])
    elif o in ("d_item",):
        op["i"], op["j"] = r.range(-L - 1, L), r.range(-L - 1, L)
        op["keep"] = r.chance(0.5)
    elif o in ("d_slice", "d_set_s", "d_set_a", "d_set_1d"):
        def fwd():
            if r.chance(0.4):
                return r.range(-L, L - 1)
            s = gen_slice(r, L)
            s[2] = r.choice([None, 1, 2, 3])
            return s
        op["x"], op["y"] = fwd(), fwd()
        op["dlen"] = r.weighted([(8, 0), (1, 1), (1, -1)])
    elif o in ("d_mask_get", "d_mask_set"):
        op["m"] = [r.choice([0, 1, 1, 0, 2, -1]) for _ in range(30 if not big else L * L + 5)]      # any non-zero entry selects
        op["form"] = r.choice(["scalar", "a2d", "full1d", "packed1d", "bad1d"])
        op["dx"] = r.weighted([(9, 0), (1, 1)])
    elif o in ("v_new",):
        op["t"] = r.choice(sorted(VARRAY_TYPES))
        op["n"] = r.range(0, L)
        op["sizes"] = [r.range(0, 4 if not big else 12) for _ in range(L)]
        op["how"] = r.choice(["sizes", "uniform", "empty"])
    elif o in ("v_mask", "s_mask", "s_set_m", "v_set_m"):
        op["m"] = [r.choice([0, 1, 1, 0, 2, -1]) for _ in range(L + 3)]        # any non-zero entry selects
        op["dlen"] = r.weighted([(9, 0), (1, 1)])
        op["k"] = r.below(64)
        if big:
            op["amod"] = r.choice([10, 37, 101])
        op["form"] = r.choice(["scalar", "full", "packed"])
    elif o == "s_new":
        op["t"] = r.choice(STRING_TYPES)
        op["n"] = r.range(0, L + 1)
        op["k"] = r.below(64)
        op["uniform"] = r.chance(0.3)
        if big:
            op["amod"] = r.choice([10, 37, 101])
    elif o == "s_eq":
        op["k"] = r.below(64)
        if big:
            op["amod"] = r.choice([10, 37, 101])
        op["ne"] = r.chance(0.5)
        op["vs"] = r.choice(["string", "array"])
    return op


class FamilyMixin:
    def self_mask_positions(self, code, n, ln):
        """ln of the n positions, chosen by code: the selection of a purpose-made masked reference of the destination"""
        x, cand, pos = (code * 2654435761) % (1 << 32), list(range(n)), []
        for _ in range(ln):
            x = (x * 1103515245 + 12345) % (1 << 31)
            pos.append(cand.pop((x >> 8) % len(cand)))
        return sorted(pos)
    # ================================================================ FixedMatrix =====================
    def m_vals(self, h):
        return [[h.store.vals[(r * h.cols + c)] for c in range(h.cols)] for r in range(h.rows)]

    def check_family(self, h, after):
        V = self.Violation
        if h.kind == "mat":
            if len(h.real) != h.rows or h.real.rows() != h.rows or h.real.columns() != h.cols:
                raise V("matrix-shape", "rows/columns %r, model %r" % ((h.real.rows(), h.real.columns()), (h.rows, h.cols)))
            t = PT.ARRAYS[h.tname]
            for r in range(h.rows):
                row = h.real[r]
                for c in range(h.cols):
                    if self.pack_vals(t, t.flat(row[c])) != self.pack_vals(t, h.store.vals[r * h.cols + c]):
                        raise V("element-value", "m[%d][%d] reads %r, model %r" % (r, c, row[c], h.store.vals[r * h.cols + c]))
        elif h.kind == "a2d":
            if tuple(h.real.size()) != (h.lx, h.ly) or len(h.real) != h.lx * h.ly:
                raise V("array2d-shape", "size() %r len %d, model %r" % (tuple(h.real.size()), len(h.real), (h.lx, h.ly)))
            t = PT.ARRAYS[h.tname]
            for j in range(h.ly):
                for i in range(h.lx):
                    if self.pack_vals(t, t.flat(h.real.item(i, j))) != self.pack_vals(t, self.d_get(h, j * h.lx + i)):
                        raise V("element-value", "a.item(%d,%d) reads %r, model %r" % (i, j, t.flat(h.real.item(i, j)), self.d_get(h, j * h.lx + i)))
        elif h.kind == "varr":
            if len(h.real) != len(h.idx):
                raise V("len", "len() %d, model %d" % (len(h.real), len(h.idx)))
            if h.real.writable() != h.writable:
                raise V("writable-flag", "writable() %s, model %s" % (h.real.writable(), h.writable))
            t = PT.ARRAYS[h.tname]
            sizes = h.real.size
            for k, ri in enumerate(h.idx):
                rowstore = h.store.vals[ri]
                sk = sizes[k]
                sk = sk if isinstance(sk, int) else sk[0]      # the integer overload is shadowed by the slice one: IntArray of 1
                if sk != len(rowstore.vals):
                    raise V("varray-row-size", "size[%d] %d, model %d" % (k, sk, len(rowstore.vals)))
                row = h.real[k]
                if len(row) != len(rowstore.vals):
                    raise V("varray-row-size", "len(va[%d]) %d, model %d" % (k, len(row), len(rowstore.vals)))
                for c in range(len(row)):
                    if self.pack_vals(t, t.flat(row[c])) != self.pack_vals(t, rowstore.vals[c]):
                        raise V("element-value", "va[%d][%d] reads %r, model %r" % (k, c, t.flat(row[c]), rowstore.vals[c]))
        elif h.kind == "vsz":
            for k, ri in enumerate(h.idx):
                sk = h.real[k]
                sk = sk if isinstance(sk, int) else sk[0]
                if sk != len(h.store.vals[ri].vals):
                    raise V("varray-row-size", "size_helper[%d] %d, model %d" % (k, sk, len(h.store.vals[ri].vals)))
        elif h.kind == "str":
            if len(h.real) != len(h.idx):
                raise V("len", "len() %d, model %d" % (len(h.real), len(h.idx)))
            if h.tname == "StringArray" and h.real.writable() != h.writable:
                raise V("writable-flag", "writable() %s, model %s" % (h.real.writable(), h.writable))
            for k in range(len(h.idx)):
                if h.real[k] != h.store.vals[h.idx[k]]:
                    raise V("string-value", "s[%d] reads %r, the last string stored there is %r" % (k, h.real[k], h.store.vals[h.idx[k]]))

    def scalar_for(self, tname, k):
        return self.fresh_value(tname, k)

    def op_m_new(self, op):
        tn = op["t"]
        rows, cols = op["r"], op["c"]
        m = getattr(imath, tn)(rows, cols)
        et = MATRIX_TYPES[tn]
        # the constructor leaves the elements uninitialised: fill through the public API
        vals = []
        for r in range(rows):
            rowv = [self.fresh_value(et, op["v"] * 32 + r * cols + c) for c in range(cols)]
            m[r] = self.make_array(et, rowv)
            vals += rowv
        h = self.Handle(m, "mat", et, self.new_store(et, vals), range(rows * cols), True)
        h.rows, h.cols, h.mtype = rows, cols, tn
        self.add(h)

    def pick_mat(self, op):
        return self.pick(op["h"], lambda x: x.kind == "mat")

    def rowsel(self, n, idx):
        if isinstance(idx, list):
            if idx[2] == 0:
                return None
            return list(range(n))[slice(idx[0], idx[1], idx[2])]
        if not (-n <= idx < n):
            return None
        return [idx % n]

    def op_m_row(self, op):
        h = self.pick_mat(op)
        if not h:
            return False
        self.sig_ctx = ("matrix-row", "mat", h.mtype)
        i = op["i"]
        got = self.call(h.real.__getitem__, i)
        bad = not (-h.rows <= i < h.rows)
        self.expect(got, bad, "m[%d] with %d rows" % (i, h.rows))
        if bad:
            self.inc("fault.bad_index")
            return
        r = i % h.rows
        nh = self.Handle(got[1], "arr", h.tname, h.store, [r * h.cols + c for c in range(h.cols)], True)
        self.inc("probe.matrix_row_view")
        self.add(nh)

    def op_m_slice(self, op):
        h = self.pick_mat(op)
        if not h:
            return False
        self.sig_ctx = ("matrix-slice", "mat", h.mtype)
        s = op["s"]
        got = self.call(h.real.__getitem__, slice(s[0], s[1], s[2]))
        sel = self.rowsel(h.rows, s)
        self.expect(got, sel is None, "m[%r]" % (s,))
        if sel is None:
            return
        vals = []
        for r in sel:
            vals += h.store.vals[r * h.cols:(r + 1) * h.cols]
        nh = self.Handle(got[1], "mat", h.tname, self.new_store(h.tname, vals), range(len(vals)), True)
        nh.rows, nh.cols, nh.mtype = len(sel), h.cols, h.mtype
        self.add(nh)

    def key_of(self, idx):
        return slice(idx[0], idx[1], idx[2]) if isinstance(idx, list) else idx

    def op_m_set_s(self, op):
        h = self.pick_mat(op)
        if not h:
            return False
        self.sig_ctx = ("matrix-setitem-scalar", "mat", h.mtype)
        sel = self.rowsel(h.rows, op["idx"])
        v = self.fresh_value(h.tname, op["v"])
        got = self.call(h.real.__setitem__, self.key_of(op["idx"]), self.to_real(h.tname, v))
        self.expect(got, sel is None, "m[%r] = scalar (%d rows)" % (op["idx"], h.rows))
        if sel is not None:
            for r in sel:
                for c in range(h.cols):
                    h.store.vals[r * h.cols + c] = v

    def op_m_set_v(self, op):
        h = self.pick_mat(op)
        if not h:
            return False
        self.sig_ctx = ("matrix-setitem-row", "mat", h.mtype)
        sel = self.rowsel(h.rows, op["idx"])
        ln = max(0, h.cols + op["dlen"])
        data = [self.fresh_value(h.tname, op["v"] * 16 + c) for c in range(ln)]
        ld = self.live_data(op, h.tname, ln, h.store)
        if ld:
            dobj, data = ld
        else:
            dobj = self.make_array(h.tname, data)
        got = self.call(h.real.__setitem__, self.key_of(op["idx"]), dobj)
        bad = sel is None or ln != h.cols
        if ln != h.cols:
            self.inc("fault.bad_length")
        self.expect(got, bad, "m[%r] = array of %d (%d columns)" % (op["idx"], ln, h.cols))
        if not bad:
            for r in sel:
                for c in range(h.cols):
                    h.store.vals[r * h.cols + c] = data[c]

    def op_m_set_m(self, op):
        h = self.pick_mat(op)
        if not h:
            return False
        self.sig_ctx = ("matrix-setitem-matrix", "mat", h.mtype)
        sel = self.rowsel(h.rows, op["idx"])
        nr = max(1, (len(sel) if sel is not None else 1) + op["dlen"])
        src = getattr(imath, h.mtype)(nr, h.cols)
        svals = []
        for r in range(nr):
            rowv = [self.fresh_value(h.tname, op["v"] * 32 + r * h.cols + c + 7) for c in range(h.cols)]
            src[r] = self.make_array(h.tname, rowv)
            svals.append(rowv)
        got = self.call(h.real.__setitem__, self.key_of(op["idx"]), src)
        bad = sel is None or nr != len(sel)
        if sel is not None and nr != len(sel):
            self.inc("fault.bad_length")
        self.expect(got, bad, "m[%r] = matrix of %d rows (selects %s)" % (op["idx"], nr, None if sel is None else len(sel)))
        if not bad:
            for k, r in enumerate(sel):
                for c in range(h.cols):
                    h.store.vals[r * h.cols + c] = svals[k][c]

    def small_value(self, tname, seed):
        t = PT.ARRAYS[tname]
        return tuple(self.wrap(t.base, (x % 7) if not isinstance(x, bool) else x) for x in self.fresh_value(tname, seed))

    def op_m_iop(self, op):
        """m += scalar / m += matrix of the same shape / of another shape (must raise)"""
        h = self.pick_mat(op)
        if not h:
            return False
        self.sig_ctx = ("matrix-inplace-" + op["rhs"], "mat", h.mtype)
        sign = 1 if op["name"] == "__iadd__" else -1
        t = PT.ARRAYS[h.tname]
        fn = getattr(h.real, op["name"])
        n = h.rows * h.cols
        if op["rhs"] == "scalar":
            v = self.small_value(h.tname, op["v"])
            got = self.call(fn, self.to_real(h.tname, v))
            per = [v] * n
            bad = False
        else:
            rows = h.rows + (1 if op["rhs"] == "badshape" else 0)
            src = getattr(imath, h.mtype)(rows, h.cols)
            per = []
            for r in range(rows):
                rowv = [self.small_value(h.tname, op["v"] * 32 + r * h.cols + c) for c in range(h.cols)]
                src[r] = self.make_array(h.tname, rowv)
                per += rowv
            got = self.call(fn, src)
            bad = rows != h.rows
            if bad:
                self.inc("fault.bad_length")
        self.expect(got, bad, "m %s= %s" % ("+" if sign > 0 else "-", op["rhs"]))
        if not bad:
            for k in range(n):
                h.store.vals[k] = tuple(self.wrap(t.base, x + sign * y) for x, y in zip(h.store.vals[k], per[k]))

    def op_d_iop(self, op):
        h = self.pick_a2d(op)
        if not h:
            return False
        if op["name"] not in getattr(imath, h.atype).__dict__:
            return False
        self.sig_ctx = ("array2d-inplace-" + op["rhs"], "a2d", h.atype)
        sign = 1 if op["name"] == "__iadd__" else -1
        t = PT.ARRAYS[h.tname]
        fn = getattr(h.real, op["name"])
        if op["rhs"] == "scalar":
            v = self.small_value(h.tname, op["v"])
            got = self.call(fn, self.to_real(h.tname, v))
            per = {(i, j): v for j in range(h.ly) for i in range(h.lx)}
            bad = False
        else:
            lx = h.lx + (1 if op["rhs"] == "badshape" else 0)
            src = getattr(imath, h.atype)(lx, h.ly)
            per = {}
            for j in range(h.ly):
                for i in range(lx):
                    v = self.small_value(h.tname, op["v"] * 32 + j * lx + i)
                    src[i, j] = self.to_real(h.tname, v)
                    per[(i, j)] = v
            got = self.call(fn, src)
            bad = lx != h.lx
            if bad:
                self.inc("fault.bad_length")
        self.expect(got, bad, "a2d %s= %s" % ("+" if sign > 0 else "-", op["rhs"]))
        if not bad:
            for j in range(h.ly):
                for i in range(h.lx):
                    k = j * h.lx + i
                    cur = self.d_get(h, k)
                    self.d_put(h, k, tuple(self.wrap(t.base, x + sign * y) for x, y in zip(cur, per[(i, j)])))

    def op_m_bad(self, op):
        h = self.pick_mat(op)
        if not h:
            return False
        i = op["idx"]
        self.sig_ctx = ("matrix-bad-index-" + op["how"], "mat", h.mtype)
        self.inc("fault.bad_index")
        bad = not (-h.rows <= i < h.rows)
        if op["how"] == "get":
            got = self.call(h.real.__getitem__, i)
            self.expect(got, bad, "m[%d] with %d rows" % (i, h.rows))
            return
        if op["how"] == "set":
            v = self.fresh_value(h.tname, op["v"])
            got = self.call(h.real.__setitem__, i, self.to_real(h.tname, v))
            self.expect(got, bad, "m[%d] = scalar with %d rows" % (i, h.rows))
            if not bad:
                for c in range(h.cols):
                    h.store.vals[(i % h.rows) * h.cols + c] = v
        else:
            data = [self.fresh_value(h.tname, op["v"] * 16 + c) for c in range(h.cols)]
            got = self.call(h.real.__setitem__, i, self.make_array(h.tname, data))
            self.expect(got, bad, "m[%d] = row with %d rows" % (i, h.rows))
            if not bad:
                for c in range(h.cols):
                    h.store.vals[(i % h.rows) * h.cols + c] = data[c]

    # ================================================================ FixedArray2D ====================
    # a 2-D handle may be a channel view (.r/.g/.b/.a of a Color4 2-D array): `comp` selects the channel
    def d_get(self, h, k):
        v = h.store.vals[k]
        return (v[h.comp[0]],) if h.comp is not None else v

    def d_put(self, h, k, val):
        if h.comp is not None:
            cur = list(h.store.vals[k])
            cur[h.comp[0]] = val[0]
            h.store.vals[k] = tuple(cur)
        else:
            h.store.vals[k] = tuple(val)

    def op_d_comp(self, op):
        h = self.pick(op["h"], lambda x: x.kind == "a2d" and x.comp is None and x.atype == "Color4fArray2D")
        if not h:
            return False
        self.sig_ctx = ("array2d-channel-view", "a2d", h.atype)
        c = op["c"] % 4
        got = self.call(getattr, h.real, "rgba"[c])
        self.expect(got, False, "a2d.%s" % "rgba"[c])
        nh = self.Handle(got[1], "a2d", "FloatArray", h.store, h.idx, True, False, [c])
        nh.lx, nh.ly, nh.atype = h.lx, h.ly, "FloatArray2D"
        self.inc("probe.array2d_channel_view")
        self.add(nh)

    def op_d_new(self, op):
        tn, lx, ly = op["t"], op["r"], op["c"]
        et = A2D_TYPES[tn]
        v0 = self.fresh_value(et, op["v"])
        a = getattr(imath, tn)(self.to_real(et, v0), lx, ly)
        vals = [v0] * (lx * ly)
        h = self.Handle(a, "a2d", et, self.new_store(et, vals), range(lx * ly), True)
        h.lx, h.ly, h.atype = lx, ly, tn
        # distinct contents through single-element assignment
        for j in range(ly):
            for i in range(lx):
                v = self.fresh_value(et, op["v"] * 32 + j * lx + i + 1)
                a[i, j] = self.to_real(et, v)
                vals[j * lx + i] = v
        h.store.vals = vals
        self.add(h)

    def pick_a2d(self, op):
        return self.pick(op["h"], lambda x: x.kind == "a2d")

    def dimsel(self, n, idx):
        if isinstance(idx, list):
            return list(range(n))[slice(idx[0], idx[1], idx[2])]
        if not (-n <= idx < n):
            return None
        return [idx % n]

    def op_d_item(self, op):
        h = self.pick_a2d(op)
        if not h:
            return False
        self.sig_ctx = ("array2d-item", "a2d", h.atype)
        i, j = op["i"], op["j"]
        got = self.call(h.real.item, i, j)
        bad = not (-h.lx <= i < h.lx and -h.ly <= j < h.ly)
        if bad:
            self.inc("fault.bad_index")
        self.expect(got, bad, "a.item(%d,%d) of size (%d,%d)" % (i, j, h.lx, h.ly))
        if bad:
            return
        k = (j % h.ly) * h.lx + (i % h.lx)
        if not self.elem_eq(h.tname, got[1], self.d_get(h, k)):
            raise self.Violation("element-value", "a.item(%d,%d) returned %r" % (i, j, got[1]))
        if op.get("keep") and h.atype.startswith("Color4"):
            # class-type elements come back as a reference into the 2-D array (and keep it alive)
            self.add(self.Handle(got[1], "elem", h.tname, h.store, [k], True))
            self.inc("probe.array2d_element_reference_kept")

    def op_d_slice(self, op):
        h = self.pick_a2d(op)
        if not h:
            return False
        self.sig_ctx = ("array2d-getitem", "a2d", h.atype)
        sx, sy = self.dimsel(h.lx, op["x"]), self.dimsel(h.ly, op["y"])
        got = self.call(h.real.__getitem__, (self.key_of(op["x"]), self.key_of(op["y"])))
        bad = sx is None or sy is None
        if bad:
            self.inc("fault.bad_index")
        self.expect(got, bad, "a[%r,%r] of size (%d,%d)" % (op["x"], op["y"], h.lx, h.ly))
        if bad:
            return
        vals = [self.d_get(h, j * h.lx + i) for j in sy for i in sx]
        nh = self.Handle(got[1], "a2d", h.tname, self.new_store(h.tname, vals), range(len(vals)), True)
        nh.lx, nh.ly, nh.atype = len(sx), len(sy), h.atype
        self.add(nh)

    def op_d_set_s(self, op):
        h = self.pick_a2d(op)
        if not h:
            return False
        self.sig_ctx = ("array2d-setitem-scalar", "a2d", h.atype)
        sx, sy = self.dimsel(h.lx, op["x"]), self.dimsel(h.ly, op["y"])
        v = self.fresh_value(h.tname, op["v"])
        got = self.call(h.real.__setitem__, (self.key_of(op["x"]), self.key_of(op["y"])), self.to_real(h.tname, v))
        bad = sx is None or sy is None
        self.expect(got, bad, "a[%r,%r] = scalar" % (op["x"], op["y"]))
        if not bad:
            for j in sy:
                for i in sx:
                    self.d_put(h, j * h.lx + i, v)

    def op_d_set_a(self, op):
        h = self.pick_a2d(op)
        if not h:
            return False
        self.sig_ctx = ("array2d-setitem-array2d", "a2d", h.atype)
        sx, sy = self.dimsel(h.lx, op["x"]), self.dimsel(h.ly, op["y"])
        nx = max(0, (len(sx) if sx is not None else 1) + op["dlen"])
        ny = len(sy) if sy is not None else 1
        src = getattr(imath, h.atype)(nx, ny)
        svals = {}
        for j in range(ny):
            for i in range(nx):
                v = self.fresh_value(h.tname, op["v"] * 32 + j * nx + i + 3)
                src[i, j] = self.to_real(h.tname, v)
                svals[(i, j)] = v
        got = self.call(h.real.__setitem__, (self.key_of(op["x"]), self.key_of(op["y"])), src)
        bad = sx is None or sy is None or nx != len(sx)
        if sx is not None and nx != len(sx):
            self.inc("fault.bad_length")
        self.expect(got, bad, "a[%r,%r] = array2d of (%d,%d)" % (op["x"], op["y"], nx, ny))
        if not bad:
            for jj, j in enumerate(sy):
                for ii, i in enumerate(sx):
                    self.d_put(h, j * h.lx + i, svals[(ii, jj)])

    def op_d_set_1d(self, op):
        h = self.pick_a2d(op)
        if not h:
            return False
        self.sig_ctx = ("array2d-setitem-array1d", "a2d", h.atype)
        sx, sy = self.dimsel(h.lx, op["x"]), self.dimsel(h.ly, op["y"])
        want = (len(sx) if sx is not None else 1) * (len(sy) if sy is not None else 1)
        ln = max(0, want + op["dlen"])
        data = [self.fresh_value(h.tname, op["v"] * 32 + z + 5) for z in range(ln)]
        ld = self.live_data(op, h.tname, ln, h.store)
        if ld:
            dobj, data = ld
        else:
            dobj = self.make_array(h.tname, data)
        got = self.call(h.real.__setitem__, (self.key_of(op["x"]), self.key_of(op["y"])), dobj)
        bad = sx is None or sy is None or ln != want
        if ln != want:
            self.inc("fault.bad_length")
        self.expect(got, bad, "a[%r,%r] = 1-D array of %d (selects %d)" % (op["x"], op["y"], ln, want))
        if not bad:
            z = 0
            for j in sy:
                for i in sx:
                    self.d_put(h, j * h.lx + i, data[z])
                    z += 1

    def make_mask2d(self, bits, lx, ly):
        m = imath.IntArray2D(lx, ly)
        for j in range(ly):
            for i in range(lx):
                m[i, j] = bits[(j * lx + i) % len(bits)]
        return m

    def op_d_mask_get(self, op):
        h = self.pick_a2d(op)
        if not h:
            return False
        self.sig_ctx = ("array2d-getitem-mask", "a2d", h.atype)
        mx = h.lx + op["dx"]
        got = self.call(h.real.__getitem__, self.make_mask2d(op["m"], mx, h.ly))
        bad = mx != h.lx
        if bad:
            self.inc("fault.bad_length")
        self.expect(got, bad, "a[mask2d] (mask (%d,%d), array (%d,%d))" % (mx, h.ly, h.lx, h.ly))
        if bad:
            return
        # selected elements are copied; the others hold whatever the type's default construction gives:
        # only the selected ones are compared
        a = got[1]
        for j in range(h.ly):
            for i in range(h.lx):
                if op["m"][(j * h.lx + i) % len(op["m"])]:
                    if not self.elem_eq(h.tname, a.item(i, j), self.d_get(h, j * h.lx + i)):
                        raise self.Violation("element-value", "a[mask2d].item(%d,%d) differs from a.item(%d,%d)" % (i, j, i, j))

    def op_d_mask_set(self, op):
        h = self.pick_a2d(op)
        if not h:
            return False
        form = op["form"]
        self.sig_ctx = ("array2d-setitem-mask-" + form, "a2d", h.atype)
        mx = h.lx + op["dx"]
        mask = self.make_mask2d(op["m"], mx, h.ly)
        bits = [[op["m"][(j * mx + i) % len(op["m"])] for i in range(mx)] for j in range(h.ly)]
        bad = mx != h.lx
        if bad:
            self.inc("fault.bad_length")
        cnt = sum(1 for j in range(h.ly) for i in range(min(mx, h.lx)) if bits[j][i])
        n = h.lx * h.ly
        if form == "scalar":
            v = self.fresh_value(h.tname, op["v"])
            got = self.call(h.real.__setitem__, mask, self.to_real(h.tname, v))
            self.expect(got, bad, "a[mask2d] = scalar")
            if not bad:
                for j in range(h.ly):
                    for i in range(h.lx):
                        if bits[j][i]:
                            self.d_put(h, j * h.lx + i, v)
        elif form == "a2d":
            src = getattr(imath, h.atype)(h.lx, h.ly)
            sv = {}
            for j in range(h.ly):
                for i in range(h.lx):
                    v = self.fresh_value(h.tname, op["v"] * 32 + j * h.lx + i + 9)
                    src[i, j] = self.to_real(h.tname, v)
                    sv[(i, j)] = v
            got = self.call(h.real.__setitem__, mask, src)
            self.expect(got, bad, "a[mask2d] = array2d")
            if not bad:
                for j in range(h.ly):
                    for i in range(h.lx):
                        if bits[j][i]:
                            self.d_put(h, j * h.lx + i, sv[(i, j)])
        else:
            ln = n if form == "full1d" else cnt if form == "packed1d" else n + 1 + (1 if n + 1 == cnt else 0)
            data = [self.fresh_value(h.tname, op["v"] * 32 + z + 11) for z in range(ln)]
            got = self.call(h.real.__setitem__, mask, self.make_array(h.tname, data))
            b2 = bad or (ln != n and ln != cnt)
            if form == "bad1d":
                self.inc("fault.bad_length")
            self.expect(got, b2, "a[mask2d] = 1-D array of %d (total %d, selected %d)" % (ln, n, cnt))
            if not b2:
                z = 0
                for j in range(h.ly):
                    for i in range(h.lx):
                        if ln == n:
                            if bits[j][i]:
                                self.d_put(h, j * h.lx + i, data[j * h.lx + i])
                        elif bits[j][i]:
                            self.d_put(h, j * h.lx + i, data[z])
                            z += 1

    def op_d_ifelse(self, op):
        """a2d.ifelse(choice2d, scalar | array2d): a new array; reads only"""
        h = self.pick_a2d(op)
        if not h:
            return False
        form = op["form"]
        self.sig_ctx = ("array2d-ifelse-" + form, "a2d", h.atype)
        bits = [[op["m"][(j * h.lx + i) % len(op["m"])] for i in range(h.lx)] for j in range(h.ly)]
        choice = self.make_mask2d(op["m"], h.lx, h.ly)
        if form == "scalar":
            v = self.fresh_value(h.tname, op["v"])
            got = self.call(h.real.ifelse, choice, self.to_real(h.tname, v))
            oth = {(i, j): v for j in range(h.ly) for i in range(h.lx)}
            bad = False
        else:
            ox = h.lx + (1 if form == "badshape" else 0)
            src = getattr(imath, h.atype)(ox, h.ly)
            oth = {}
            for j in range(h.ly):
                for i in range(ox):
                    v = self.fresh_value(h.tname, op["v"] * 32 + j * ox + i + 17)
                    src[i, j] = self.to_real(h.tname, v)
                    oth[(i, j)] = v
            got = self.call(h.real.ifelse, choice, src)
            bad = ox != h.lx
        self.expect(got, bad, "a2d.ifelse(choice, %s)" % form)
        if bad:
            return
        vals = [self.d_get(h, j * h.lx + i) if bits[j][i] else oth[(i, j)] for j in range(h.ly) for i in range(h.lx)]
        nh = self.Handle(got[1], "a2d", h.tname, self.new_store(h.tname, vals), range(len(vals)), True)
        nh.lx, nh.ly, nh.atype = h.lx, h.ly, h.atype
        self.add(nh)

    def op_d_binop(self, op):
        """a2d + x / a2d - x: a new array (exact arithmetic on small values); also for strided channel views"""
        h = self.pick_a2d(op)
        if not h or op["name"] not in getattr(imath, h.atype).__dict__:
            return False
        form = op["form"]
        self.sig_ctx = ("array2d-binary-" + form, "a2d", h.atype)
        sign = 1 if op["name"] == "__add__" else -1
        t = PT.ARRAYS[h.tname]
        fn = getattr(h.real, op["name"])
        if form == "scalar":
            v = self.small_value(h.tname, op["v"])
            got = self.call(fn, self.to_real(h.tname, v))
            oth = {(i, j): v for j in range(h.ly) for i in range(h.lx)}
            bad = False
        else:
            ox = h.lx + (1 if form == "badshape" else 0)
            src = getattr(imath, h.atype)(ox, h.ly)
            oth = {}
            for j in range(h.ly):
                for i in range(ox):
                    v = self.small_value(h.tname, op["v"] * 32 + j * ox + i + 19)
                    src[i, j] = self.to_real(h.tname, v)
                    oth[(i, j)] = v
            got = self.call(fn, src)
            bad = ox != h.lx
        self.expect(got, bad, "a2d %s %s" % ("+" if sign > 0 else "-", form))
        if bad:
            return
        vals = [tuple(self.wrap(t.base, x + sign * y) for x, y in zip(self.d_get(h, j * h.lx + i), oth[(i, j)]))
                for j in range(h.ly) for i in range(h.lx)]
        nh = self.Handle(got[1], "a2d", h.tname, self.new_store(h.tname, vals), range(len(vals)), True)
        nh.lx, nh.ly, nh.atype = h.lx, h.ly, h.atype
        self.add(nh)

    def op_d_bad(self, op):
        h = self.pick_a2d(op)
        if not h:
            return False
        how = op["how"]
        self.sig_ctx = ("array2d-bad-index-" + how, "a2d", h.atype)
        self.inc("fault.bad_index")
        i = op["idx"]
        if how == "get":
            got = self.call(h.real.item, i, 0)
            self.expect(got, not (-h.lx <= i < h.lx) or h.ly == 0, "a.item(%d,0)" % i)
        elif how == "set":
            v = self.fresh_value(h.tname, op["v"])
            got = self.call(h.real.__setitem__, (i, slice(None)), self.to_real(h.tname, v))
            bad = not (-h.lx <= i < h.lx)
            self.expect(got, bad, "a[%d,:] = scalar" % i)
            if not bad:
                for j in range(h.ly):
                    self.d_put(h, j * h.lx + i % h.lx, v)
        else:
            # an index that is not a 2-tuple, with array data: must raise, not crash
            src = getattr(imath, h.atype)(1, 1)
            got = self.call(h.real.__setitem__, 0 if op["k"] % 2 else slice(None), src)
            self.expect(got, True, "a[non-tuple index] = array2d")
            got = self.call(h.real.__setitem__, 0 if op["k"] % 2 else slice(None), self.make_array(h.tname, [self.fresh_value(h.tname, 1)]))
            self.expect(got, True, "a[non-tuple index] = 1-D array")

    # ================================================================ FixedVArray =====================
    def op_v_new(self, op):
        tn = op["t"]
        et = VARRAY_TYPES[tn]
        n = op["n"]
        cls = getattr(imath, tn)
        how = op["how"]
        sizes = op["sizes"][:n]
        v0 = self.fresh_value(et, op["v"])
        if how == "empty":
            va = cls(n)
            rows = [self.new_store(et, []) for _ in range(n)]
        elif how == "uniform":
            va = cls(self.to_real(et, v0), n)
            rows = [self.new_store(et, [v0]) for _ in range(n)]
        else:
            sa = imath.IntArray(n)
            for i, s in enumerate(sizes):
                sa[i] = s
            va = cls(sa, self.to_real(et, v0))
            rows = [self.new_store(et, [v0] * s) for s in sizes]
        # distinct contents through row views
        for k, rs in enumerate(rows):
            if rs.vals:
                row = va[k]
                for c in range(len(rs.vals)):
                    v = self.fresh_value(et, op["v"] * 32 + k * 5 + c + 1)
                    row[c] = self.to_real(et, v)
                    rs.vals[c] = v
                del row
        st = self.new_store(et, rows)
        h = self.Handle(va, "varr", et, st, range(n), True)
        h.vtype = tn
        self.add(h)

    def pick_va(self, op, pred=None):
        return self.pick(op["h"], lambda x: x.kind == "varr" and (pred is None or pred(x)))

    def op_v_row(self, op):
        h = self.pick_va(op)
        if not h:
            return False
        self.sig_ctx = ("varray-row", h.hkind(), h.vtype)
        n, i = len(h.idx), op["i"]
        got = self.call(h.real.__getitem__, i)
        bad = not (-n <= i < n)
        self.expect(got, bad, "va[%d] of %d items" % (i, n))
        if bad:
            self.inc("fault.bad_index")
            return
        rs = h.store.vals[h.idx[i % n]]
        nh = self.Handle(got[1], "arr", h.tname, rs, range(len(rs.vals)), h.writable)
        nh.rowof = rs
        self.inc("probe.varray_row_view")
        self.add(nh)

    def op_v_slice(self, op):
        h = self.pick_va(op)
        if not h:
            return False
        self.sig_ctx = ("varray-slice", h.hkind(), h.vtype)
        s = op["s"]
        n = len(h.idx)
        got = self.call(h.real.__getitem__, slice(s[0], s[1], s[2]))
        sel = self.rowsel(n, s)
        self.expect(got, sel is None, "va[%r]" % (s,))
        if sel is None:
            return
        rows = [self.new_store(h.tname, list(h.store.vals[h.idx[k]].vals)) for k in sel]
        nh = self.Handle(got[1], "varr", h.tname, self.new_store(h.tname, rows), range(len(rows)), True)
        nh.vtype = h.vtype
        self.add(nh)

    def op_v_mask(self, op):
        h = self.pick_va(op)
        if not h:
            return False
        self.sig_ctx = ("varray-mask", h.hkind(), h.vtype)
        n = len(h.idx)
        bits = (op["m"] * (n + 2))[:n + op["dlen"]]
        got = self.call(h.real.__getitem__, self.make_mask(bits))
        bad = len(bits) != n
        if h.masked and not bad and got[0] == "exc":
            self.inc("outcome.raised")      # documented refusal, not demanded by the property (see op_mask)
            self.h.update(b"exc")
            return
        self.expect(got, bad, "va[mask] (mask %d, items %d, masked %s)" % (len(bits), n, h.masked))
        if bad:
            return
        nh = self.Handle(got[1], "varr", h.tname, h.store, [h.idx[k] for k in range(n) if bits[k]], h.writable, True)
        nh.vtype = h.vtype
        nh.ulen = n if not h.masked else None
        if h.masked:
            nh.ulen_alt = self.maybe_legal_lengths(h) | {n}
        self.add(nh)

    def stale_rows(self, rowstores):
        """row views whose vector may have been reallocated are no longer valid views (not a release: mutation)"""
        ids = set(id(r) for r in rowstores)
        for k in range(len(self.slots) - 1, -1, -1):
            o = self.slots[k]
            if o.kind in ("arr", "mv", "elem") and id(o.store) in ids:
                self.slots.pop(k)
                self.inc("probe.row_view_retired_after_resize")

    def op_v_set_row(self, op):
        """va[idx] = FixedArray: overwrite the elements of every selected item (sizes must match)"""
        h = self.pick_va(op)
        if not h:
            return False
        self.sig_ctx = ("varray-setitem-elements", h.hkind(), h.vtype)
        n = len(h.idx)
        sel = self.rowsel(n, op["idx"])
        sizes = sorted(set(len(h.store.vals[h.idx[k]].vals) for k in (sel or [])))
        ln = max(0, (sizes[0] if sizes else 1) + op["dlen"])
        data = [self.fresh_value(h.tname, op["v"] * 16 + c) for c in range(ln)]
        before = [list(r.vals) for r in h.store.vals]
        ld = self.live_data(op, h.tname, ln, None)
        if ld and not any(ld[0] is o.real and any(o.store is rs for rs in h.store.vals) for o in self.slots):
            dobj, data = ld[0], [tuple(v) for v in ld[1]]
        else:
            dobj = self.make_array(h.tname, data)
        got = self.call(h.real.__setitem__, self.key_of(op["idx"]), dobj)
        bad = sel is None or not h.writable or any(s != ln for s in sizes)
        if not h.writable:
            self.inc("fault.write_via_readonly")
        if sel is not None and len(sizes) > 1 and h.writable:
            # items of different sizes: the call raises part-way; which items were already written is not specified
            self.expect(got, True, "va[%r] = array of %d onto items of sizes %r" % (op["idx"], ln, sizes))
            for k in sel:
                rs = h.store.vals[h.idx[k]]
                if len(rs.vals) == ln:
                    row = h.real[k] if h.writable else None
                    rs.vals = [tuple(PT.ARRAYS[h.tname].flat(row[c])) for c in range(ln)] if row is not None else rs.vals
            return
        self.expect(got, bad, "va[%r] = array of %d (item sizes %r, writable %s)" % (op["idx"], ln, sizes, h.writable))
        if not bad:
            for k in sel:
                h.store.vals[h.idx[k]].vals = list(data)
        else:
            assert [list(r.vals) for r in h.store.vals] == before

    def op_v_set_v(self, op):
        """va[idx] = FixedVArray: replace the selected items"""
        h = (self.pick_va(op, lambda x: x.masked) if op["k"] % 5 < 3 else None) or self.pick_va(op)
        if not h:
            return False
        self.sig_ctx = ("varray-setitem-items", h.hkind(), h.vtype)
        n = len(h.idx)
        sel = self.rowsel(n, op["idx"])
        cnt = max(0, (len(sel) if sel is not None else 1) + op["dlen"])
        # one time in three the source is a live variable array - possibly the destination itself or another view of its
        # storage (va[::-1] = va): as on a list, the right-hand side is read before anything is written
        o = self.pick(op["h"] // 3, lambda x: x.kind == "varr" and x.vtype == h.vtype and len(x.idx) == cnt) if op["k"] % 3 == 0 else None
        if o is None and op["k"] % 3 == 1 and not h.masked and 0 < cnt <= n:
            # ... or a masked reference of the destination itself, made for the purpose (va[::2] = va[mask])
            pos = self.self_mask_positions(op["h"], n, cnt)
            o = h
            src = h.real[self.make_mask([1 if k in pos else 0 for k in range(n)])]
            svals = [list(h.store.vals[h.idx[k]].vals) for k in pos]
            self.inc("probe.assign_source_is_masked_reference_of_destination")
            self.sig_ctx = ("varray-setitem-items-source-shares-storage", h.hkind(), h.vtype)
        elif o is not None:
            src = o.real
            svals = [list(o.store.vals[o.idx[k]].vals) for k in range(cnt)]
            self.inc("probe.assign_from_live_handle")
            if o.store is h.store:
                self.inc("probe.assign_source_shares_storage_with_destination")
                self.sig_ctx = ("varray-setitem-items-source-shares-storage", h.hkind(), h.vtype)
        else:
            src = getattr(imath, h.vtype)(cnt)
            svals = []
        for k in range(cnt if o is None else 0):
            sz = (op["k"] + k) % 4
            src.size[k] = sz
            rowv = [self.fresh_value(h.tname, op["v"] * 32 + k * 4 + c + 2) for c in range(sz)]
            if sz:
                row = src[k]
                for c in range(sz):
                    row[c] = self.to_real(h.tname, rowv[c])
                del row
            svals.append(rowv)
        got = self.call(h.real.__setitem__, self.key_of(op["idx"]), src)
        bad = sel is None or not h.writable or cnt != len(sel)
        if not h.writable:
            self.inc("fault.write_via_readonly")
        self.expect(got, bad, "va[%r] = varray of %d items (selects %s, writable %s)" % (op["idx"], cnt, None if sel is None else len(sel), h.writable))
        if not bad:
            self.stale_rows([h.store.vals[h.idx[k]] for k in sel])
            for j, k in enumerate(sel):
                h.store.vals[h.idx[k]].vals = list(svals[j])

    def op_v_set_m(self, op):
        """va[mask] = FixedArray (elements of every selected item) / = FixedVArray (replace the selected items)"""
        h = self.pick_va(op)
        if not h:
            return False
        form = op["form"]
        self.sig_ctx = ("varray-setitem-mask-" + ("elements" if form == "scalar" else "items-" + form), h.hkind(), h.vtype)
        n = len(h.idx)
        bits = (op["m"] * (n + 2))[:n + op["dlen"]]
        while h.masked and len(bits) != n and len(bits) in self.maybe_legal_lengths(h):
            bits = bits + [1]        # the unmasked length is accepted (documented non-strict match): not exercised
        badlen = len(bits) != n
        sel = [k for k in range(min(n, len(bits))) if bits[k]]
        if not h.writable:
            self.inc("fault.write_via_readonly")
        if form == "scalar":
            sizes = sorted(set(len(h.store.vals[h.idx[k]].vals) for k in sel))
            ln = sizes[0] if sizes else 1
            data = [self.fresh_value(h.tname, op["v"] * 16 + c) for c in range(ln)]
            got = self.call(h.real.__setitem__, self.make_mask(bits), self.make_array(h.tname, data))
            if not badlen and h.writable and len(sizes) > 1:
                # items of different sizes: raises part-way; which items were written before is unspecified: resynchronise
                self.expect(got, True, "va[mask] = array of %d onto items of sizes %r" % (ln, sizes))
                for k in sel:
                    rs = h.store.vals[h.idx[k]]
                    row = h.real[k]
                    rs.vals = [tuple(PT.ARRAYS[h.tname].flat(row[c])) for c in range(len(row))]
                return
            bad = badlen or not h.writable
            self.expect(got, bad, "va[mask] = array of %d (mask %d, items %d, masked %s, writable %s)" % (ln, len(bits), n, h.masked, h.writable))
            if not bad:
                for k in sel:
                    h.store.vals[h.idx[k]].vals = list(data)
        else:
            cnt = len(sel)
            ln = n if form == "full" else cnt
            src = getattr(imath, h.vtype)(ln)
            svals = []
            for k in range(ln):
                sz = (op["k"] + k) % 4
                src.size[k] = sz
                rowv = [self.fresh_value(h.tname, op["v"] * 32 + k * 4 + c + 3) for c in range(sz)]
                if sz:
                    row = src[k]
                    for c in range(sz):
                        row[c] = self.to_real(h.tname, rowv[c])
                    del row
                svals.append(rowv)
            got = self.call(h.real.__setitem__, self.make_mask(bits), src)
            bad = badlen or not h.writable
            if h.masked and not bad and got[0] == "exc":
                # documented refusal (masked references do not support mask assignment of items): nothing changes. The
                # property does not demand the refusal: should the library accept the call, list semantics apply (below)
                self.inc("outcome.raised")
                self.h.update(b"exc")
                return
            self.expect(got, bad, "va[mask] = varray of %d (mask %d, selected %d, items %d, masked %s, writable %s)" % (ln, len(bits), cnt, n, h.masked, h.writable))
            if not bad:
                self.stale_rows([h.store.vals[h.idx[k]] for k in sel])
                j = 0
                for k in sel:
                    h.store.vals[h.idx[k]].vals = list(svals[k] if ln == n else svals[j])
                    j += 1

    def op_v_size(self, op):
        h = self.pick_va(op)
        if not h:
            return False
        self.sig_ctx = ("varray-size-get", h.hkind(), h.vtype)
        n = len(h.idx)
        sel = self.rowsel(n, op["idx"])
        got = self.call(h.real.size.__getitem__, self.key_of(op["idx"]))
        self.expect(got, sel is None, "va.size[%r]" % (op["idx"],))
        if sel is None:
            return
        want = [len(h.store.vals[h.idx[k]].vals) for k in sel]
        res = got[1]
        if not isinstance(res, int):
            if [res[i] for i in range(len(res))] != want:
                raise self.Violation("varray-row-size", "va.size[%r] is %r, model %r" % (op["idx"], [res[i] for i in range(len(res))], want))
        elif res != want[0]:
            raise self.Violation("varray-row-size", "va.size[%r] is %r, model %r" % (op["idx"], res, want[0]))

    def op_v_resize(self, op):
        h = self.pick_va(op)
        if not h:
            return False
        self.sig_ctx = ("varray-size-set", h.hkind(), h.vtype)
        n = len(h.idx)
        sel = self.rowsel(n, op["idx"])
        newsize = op["k"] % 5
        got = self.call(h.real.size.__setitem__, self.key_of(op["idx"]), newsize)
        bad = sel is None or not h.writable
        if not h.writable:
            self.inc("fault.write_via_readonly")
        self.expect(got, bad, "va.size[%r] = %d (writable %s)" % (op["idx"], newsize, h.writable))
        if not bad:
            self.stale_rows([h.store.vals[h.idx[k]] for k in sel])
            # the value of elements added by a resize is not specified (class types are left uninitialised):
            # give them defined values through a row view straight away
            for k in sel:
                rs = h.store.vals[h.idx[k]]
                old = len(rs.vals)
                rs.vals = rs.vals[:newsize]
                if newsize > old:
                    row = h.real[k]
                    for c in range(old, newsize):
                        v = self.fresh_value(h.tname, op["v"] * 32 + k * 5 + c + 13)
                        row[c] = self.to_real(h.tname, v)
                        rs.vals.append(v)
                    del row

    # the size helper kept as an object of its own: it must follow the variable array it came from (its read-only state
    # at the time of the write, not at the time the helper was fetched) and keep the storage alive
    def op_v_sizeh(self, op):
        h = self.pick_va(op)
        if not h:
            return False
        self.sig_ctx = ("varray-size-helper", h.hkind(), h.vtype)
        got = self.call(getattr, h.real, "size")
        self.expect(got, False, "va.size")
        nh = self.Handle(got[1], "vsz", h.tname, h.store, h.idx, True, h.masked)
        nh.vtype, nh.src = h.vtype, h
        self.inc("probe.size_helper_kept")
        self.add(nh)

    def op_vsz_get(self, op):
        z = self.pick(op["h"], lambda x: x.kind == "vsz")
        if not z:
            return False
        self.sig_ctx = ("varray-size-helper-get", z.src.hkind(), z.vtype)
        n = len(z.idx)
        sel = self.rowsel(n, op["idx"])
        got = self.call(z.real.__getitem__, self.key_of(op["idx"]))
        self.expect(got, sel is None, "size_helper[%r]" % (op["idx"],))
        if sel is None:
            return
        want = [len(z.store.vals[z.idx[k]].vals) for k in sel]
        res = got[1]
        have = [res] if isinstance(res, int) else [res[i] for i in range(len(res))]
        if have != want:
            raise self.Violation("varray-row-size", "size_helper[%r] is %r, model %r" % (op["idx"], have, want))

    def op_vsz_set(self, op):
        z = self.pick(op["h"], lambda x: x.kind == "vsz")
        if not z:
            return False
        src = z.src
        self.sig_ctx = ("varray-size-helper-set", src.hkind(), z.vtype)
        n = len(z.idx)
        sel = self.rowsel(n, op["idx"])
        newsize = op["k"] % 5
        got = self.call(z.real.__setitem__, self.key_of(op["idx"]), newsize)
        bad = sel is None or not src.writable
        if not src.writable:
            self.inc("fault.write_via_readonly")
            if src.real is None:
                self.inc("probe.size_helper_of_released_readonly_array")
        self.expect(got, bad, "size_helper[%r] = %d (array writable %s)" % (op["idx"], newsize, src.writable))
        if not bad:
            self.stale_rows([z.store.vals[z.idx[k]] for k in sel])
            for k in sel:
                rs = z.store.vals[z.idx[k]]
                old = len(rs.vals)
                rs.vals = rs.vals[:newsize]
                if newsize > old:
                    if src.real is not None:
                        row = src.real[k]
                        for c in range(old, newsize):
                            v = self.fresh_value(z.tname, op["v"] * 32 + k * 5 + c + 23)
                            row[c] = self.to_real(z.tname, v)
                            rs.vals.append(v)
                        del row
                    else:
                        # the array object is gone (only the helper keeps the storage): the new elements cannot be given
                        # defined values through a row, so shrink back to keep the model exact
                        z.real[k] = old
                        rs.vals = rs.vals[:old]

    def op_v_ro(self, op):
        h = self.pick_va(op)
        if not h:
            return False
        self.sig_ctx = ("varray-makeReadOnly", h.hkind(), h.vtype)
        h.real.makeReadOnly()
        h.writable = False
        self.inc("fault.make_readonly_midstream")

    def op_v_bad(self, op):
        h = self.pick_va(op)
        if not h:
            return False
        self.sig_ctx = ("varray-bad-index-" + op["how"], h.hkind(), h.vtype)
        self.inc("fault.bad_index")
        n, i = len(h.idx), op["idx"]
        bad = not (-n <= i < n)
        if op["how"] == "get":
            got = self.call(h.real.__getitem__, i)
            self.expect(got, bad, "va[%d] of %d items" % (i, n))
        elif bad:
            got = self.call(h.real.__setitem__, i, self.make_array(h.tname, []))
            self.expect(got, True, "va[%d] = array, %d items" % (i, n))
            got = self.call(h.real.size.__setitem__, i, 1)
            self.expect(got, True, "va.size[%d] = 1, %d items" % (i, n))

    # ================================================================ StringArray =====================
    def op_s_new(self, op):
        tn, n = op["t"], op["n"]
        cls = getattr(imath, tn)
        if op["uniform"]:
            s0 = sval(op["k"], op)
            a = cls(s0, n)
            vals = [s0] * n
        else:
            a = cls(n)
            vals = [""] * n
            for i in range(n):
                s = sval((op["k"] + i * 3), op)
                a[i] = s
                vals[i] = s
        h = self.Handle(a, "str", tn, self.new_store(tn, vals), range(n), True)
        self.add(h)

    def pick_str(self, op, pred=None):
        return self.pick(op["h"], lambda x: x.kind == "str" and (pred is None or pred(x)))

    def op_s_get(self, op):
        h = self.pick_str(op)
        if not h:
            return False
        self.sig_ctx = ("string-getitem", h.hkind(), h.tname)
        n, i = len(h.idx), op["i"]
        got = self.call(h.real.__getitem__, i)
        bad = not (-n <= i < n)
        self.expect(got, bad, "s[%d] of %d" % (i, n))
        if not bad and got[1] != h.store.vals[h.idx[i % n]]:
            raise self.Violation("string-value", "s[%d] returned %r, last stored %r" % (i, got[1], h.store.vals[h.idx[i % n]]))

    def op_s_slice(self, op):
        h = self.pick_str(op)
        if not h:
            return False
        self.sig_ctx = ("string-slice", h.hkind(), h.tname)
        s = op["s"]
        n = len(h.idx)
        got = self.call(h.real.__getitem__, slice(s[0], s[1], s[2]))
        sel = self.rowsel(n, s)
        self.expect(got, sel is None, "s[%r]" % (s,))
        if sel is None:
            return
        vals = [h.store.vals[h.idx[k]] for k in sel]
        self.add(self.Handle(got[1], "str", h.tname, self.new_store(h.tname, vals), range(len(vals)), True))

    def op_s_mask(self, op):
        h = self.pick_str(op)
        if not h:
            return False
        self.sig_ctx = ("string-mask", h.hkind(), h.tname)
        n = len(h.idx)
        bits = (op["m"] * (n + 2))[:n + op["dlen"]]
        got = self.call(h.real.__getitem__, self.make_mask(bits))
        bad = len(bits) != n
        if h.masked and not bad and got[0] == "exc":
            self.inc("outcome.raised")      # documented refusal, not demanded by the property (see op_mask)
            self.h.update(b"exc")
            return
        self.expect(got, bad, "s[mask] (mask %d, len %d, masked %s)" % (len(bits), n, h.masked))
        if bad:
            return
        nh = self.Handle(got[1], "str", h.tname, h.store, [h.idx[k] for k in range(n) if bits[k]], h.writable, True)
        self.add(nh)

    def op_s_set(self, op):
        h = self.pick_str(op)
        if not h:
            return False
        self.sig_ctx = ("string-setitem-scalar", h.hkind(), h.tname)
        n = len(h.idx)
        sel = self.rowsel(n, op["idx"])
        s = sval(op["k"], op)
        got = self.call(h.real.__setitem__, self.key_of(op["idx"]), s)
        bad = sel is None or not h.writable
        if not h.writable:
            self.inc("fault.write_via_readonly")
        self.expect(got, bad, "s[%r] = %r (writable %s)" % (op["idx"], s, h.writable))
        if not bad:
            for k in sel:
                if h.store.vals[h.idx[k]] != s and s in h.store.vals:
                    self.inc("probe.string_reinterned_after_overwrite")
                h.store.vals[h.idx[k]] = s

    def op_s_set_m(self, op):
        h = self.pick_str(op)
        if not h:
            return False
        form = op["form"]
        self.sig_ctx = ("string-setitem-mask-" + form, h.hkind(), h.tname)
        n = len(h.idx)
        bits = (op["m"] * (n + 2))[:n + op["dlen"]]
        cnt = sum(1 for b in bits[:n] if b)
        badlen = len(bits) != n
        if form == "scalar":
            s = sval(op["k"], op)
            got = self.call(h.real.__setitem__, self.make_mask(bits), s)
            bad = badlen or not h.writable
            self.expect(got, bad, "s[mask] = %r (mask %d, len %d, writable %s)" % (s, len(bits), n, h.writable))
            if not bad:
                for k in range(n):
                    if bits[k]:
                        h.store.vals[h.idx[k]] = s
        else:
            ln = n if form == "full" else cnt
            o = self.pick(op["h"] // 3, lambda x: x.kind == "str" and x.tname == h.tname and len(x.idx) == ln) if op["k"] % 3 == 0 else None
            if o is not None:
                src = o.real
                sv = [o.store.vals[k] for k in o.idx]
                self.inc("probe.assign_from_live_handle")
                if o.store is h.store:
                    self.inc("probe.assign_source_shares_storage_with_destination")
                    self.sig_ctx = ("string-setitem-mask-%s-source-shares-storage" % form, h.hkind(), h.tname)
            else:
                src = getattr(imath, h.tname)(ln)
                sv = []
            for i in range(ln if o is None else 0):
                s = sval((op["k"] + i), op)
                src[i] = s
                sv.append(s)
            got = self.call(h.real.__setitem__, self.make_mask(bits), src)
            bad = badlen or not h.writable
            self.expect(got, bad, "s[mask] = string array of %d (mask %d, selected %d, len %d, writable %s)" % (ln, len(bits), cnt, n, h.writable))
            if not bad:
                j = 0
                for k in range(n):
                    if bits[k]:
                        h.store.vals[h.idx[k]] = sv[k] if ln == n else sv[j]
                        j += 1
        if not h.writable:
            self.inc("fault.write_via_readonly")

    def op_s_set_v(self, op):
        h = self.pick_str(op)
        if not h:
            return False
        self.sig_ctx = ("string-setitem-array", h.hkind(), h.tname)
        n = len(h.idx)
        sel = self.rowsel(n, op["idx"])
        ln = max(0, (len(sel) if sel is not None else 1) + op["dlen"])
        # one time in three the source is a live string array - possibly the destination itself or another view of its
        # storage (sa[::-1] = sa): as on a list, the right-hand side is read before anything is written
        o = self.pick(op["h"] // 3, lambda x: x.kind == "str" and x.tname == h.tname and len(x.idx) == ln) if op["k"] % 3 == 0 else None
        if o is None and op["k"] % 3 == 1 and not h.masked and 0 < ln <= n:
            # ... or a masked reference of the destination itself, made for the purpose (sa[::2] = sa[mask])
            pos = self.self_mask_positions(op["h"], n, ln)
            o = h
            src = h.real[self.make_mask([1 if k in pos else 0 for k in range(n)])]
            sv = [h.store.vals[h.idx[k]] for k in pos]
            self.inc("probe.assign_source_is_masked_reference_of_destination")
            self.sig_ctx = ("string-setitem-array-source-shares-storage", h.hkind(), h.tname)
        elif o is not None:
            src = o.real
            sv = [o.store.vals[k] for k in o.idx]
            self.inc("probe.assign_from_live_handle")
            if o.store is h.store:
                self.inc("probe.assign_source_shares_storage_with_destination")
                self.sig_ctx = ("string-setitem-array-source-shares-storage", h.hkind(), h.tname)
        else:
            src = getattr(imath, h.tname)(ln)
            sv = []
        for i in range(ln if o is None else 0):
            s = sval((op["k"] * 3 + i), op)
            src[i] = s
            sv.append(s)
        got = self.call(h.real.__setitem__, self.key_of(op["idx"]), src)
        bad = sel is None or not h.writable or ln != len(sel)
        if not h.writable:
            self.inc("fault.write_via_readonly")
        self.expect(got, bad, "s[%r] = string array of %d (selects %s, writable %s)" % (op["idx"], ln, None if sel is None else len(sel), h.writable))
        if not bad:
            for j, k in enumerate(sel):
                h.store.vals[h.idx[k]] = sv[j]

    def op_s_eq(self, op):
        h = self.pick_str(op)
        if not h:
            return False
        self.sig_ctx = ("string-compare", h.hkind(), h.tname)
        n = len(h.idx)
        mine = [h.store.vals[k] for k in h.idx]
        if op["vs"] == "string":
            s = sval(op["k"], op)
            got = self.call((h.real.__ne__ if op["ne"] else h.real.__eq__), s)
            want = [int((x != s) if op["ne"] else (x == s)) for x in mine]
        else:
            o = getattr(imath, h.tname)(n)
            ov = []
            for i in range(n):
                s = mine[i] if (op["k"] + i) % 2 else sval((op["k"] + i), op)
                o[i] = s
                ov.append(s)
            got = self.call((h.real.__ne__ if op["ne"] else h.real.__eq__), o)
            want = [int((x != y) if op["ne"] else (x == y)) for x, y in zip(mine, ov)]
        self.expect(got, False, "string array comparison")
        res = [got[1][i] for i in range(len(got[1]))]
        if res != want:
            raise self.Violation("string-compare", "comparison gives %r, model %r" % (res, want))

    def op_s_ro(self, op):
        h = self.pick_str(op, lambda x: x.tname == "StringArray")
        if not h:
            return False
        self.sig_ctx = ("string-makeReadOnly", h.hkind(), h.tname)
        h.real.makeReadOnly()
        h.writable = False
        self.inc("fault.make_readonly_midstream")

    def op_s_bad(self, op):
        h = self.pick_str(op)
        if not h:
            return False
        self.sig_ctx = ("string-bad-index-" + op["how"], h.hkind(), h.tname)
        self.inc("fault.bad_index")
        n, i = len(h.idx), op["idx"]
        bad = not (-n <= i < n)
        if op["how"] == "get":
            got = self.call(h.real.__getitem__, i)
            self.expect(got, bad, "s[%d] of %d" % (i, n))
        elif bad:
            got = self.call(h.real.__setitem__, i, "zz")
            self.expect(got, True, "s[%d] = 'zz' of %d" % (i, n))
