"""C19 check: PyImath arrays / views / lifetimes / buffers against a list model, inside the ASan host.
DESIGN.md section 4."""
import copy
import json
import os
import re
import sys
import time

sys.path.insert(0, os.path.dirname(os.path.dirname(os.path.dirname(os.path.abspath(__file__)))))
from sim import build, common, pyfleet
from sim.common import log

HERE = os.path.dirname(os.path.abspath(__file__))
DRIVER = os.path.join(HERE, "driver.py")
PROP = "C19"
CHUNK = 50
RUNS = {
    "quick": [("asan", "plain", 12000), ("asan", "faults", 18000)],
    "thorough": [("asan", "plain", 400000), ("asan", "faults", 600000), ("plain", "faults", 400000)],
}
GATE = {"quick": 600, "thorough": 3000}
MAX_REPORTS = 10


def single(exe, env, plan):
    """fresh process; returns (verdict, signature, detail)"""
    import tempfile
    fd, path = tempfile.mkstemp(prefix="plan19-", suffix=".json", dir=build.CACHE)
    with os.fdopen(fd, "w") as f:
        json.dump({"plan": plan}, f)
    try:
        rc, out, err = pyfleet.run_single(exe, env, DRIVER, ["--plan", path], timeout=120)
    finally:
        os.unlink(path)
    ctx = ("?", "-", "-")
    opk = "?"
    for line in out.split("\n"):
        if line.startswith("@ctx "):
            p = line.split(" ")
            ctx = (p[1], p[2], p[3])
        elif line.startswith("@ "):
            opk = line.split(" ")[2]
            ctx = (opk, "-", "-")
        elif line.startswith("RESULT "):
            d = json.loads(line[7:])
            return d["verdict"], d.get("signature"), d.get("detail")
    cls, frag, detail = pyfleet.classify_death(rc, err)
    if cls == "harness":
        return "harness", "harness/" + frag, detail + " | " + err[-300:]
    return "violation", "%s/%s/%s/%s/%s" % (cls, frag, ctx[0], ctx[1], ctx[2]), detail


def minimise(exe, env, plan, sig, budget=70):
    tests = [0]

    def fails(ops):
        tests[0] += 1
        p = dict(plan)
        p["ops"] = ops
        v, s, _ = single(exe, env, p)
        return v == "violation" and s == sig

    ops, _ = common.ddmin(plan["ops"], fails, budget=budget)
    p = dict(plan)
    p["ops"] = ops
    return p, tests[0]


def handle(exe, env, flavour, mode, base, v):
    rc, out, err = pyfleet.run_single(exe, env, DRIVER, ["--gen", str(base), str(v["idx"]), mode])
    plan = json.loads(out.strip().split("\n")[-1])
    sigs = []
    for _ in range(2):
        verdict, s, detail = single(exe, env, plan)
        if verdict != "violation":
            raise common.HarnessFault("C19 %s/%s run %d: %s did not reproduce in a fresh process (got %s %s)" % (flavour, mode, v["idx"], v["signature"], verdict, s))
        sigs.append(s)
    if sigs[0] != sigs[1]:
        raise common.HarnessFault("C19 %s/%s run %d: two executions of one seed disagree: %s vs %s" % (flavour, mode, v["idx"], sigs[0], sigs[1]))
    sig = sigs[0]
    small, ntests = minimise(exe, env, plan, sig)
    doc = {"property": PROP, "flavour": flavour, "mode": mode, "seed": v["seed"], "base_seed": base, "run_index": v["idx"],
           "class": sig.split("/")[0], "signature": sig, "plan": small, "schedule": "the order of the ops (including release / makeReadOnly / gc ops) is the schedule",
           "observed": detail, "minimisation_tests": ntests, "original_ops": len(plan["ops"])}
    if v.get("stderr"):
        doc["sanitizer_report_tail"] = v["stderr"][-2500:]
    name = "%s-%s-run%d-%s" % (flavour, mode, v["idx"], "".join(c if c.isalnum() else "_" for c in sig)[:80])
    path = common.write_replay(PROP, name, doc)
    for _ in range(2):
        verdict, s, d2 = single(exe, env, small)
        if verdict != "violation" or s != sig:
            raise common.HarnessFault("C19 replay of %s did not reproduce (%s %s)" % (path, verdict, s))
    return {"signature": sig, "replay": path, "detail": detail}


def replay(path):
    with open(path) as f:
        doc = json.load(f)
    exe, env, bd = pyfleet.prepare(doc.get("flavour", "asan"))
    verdict, s, detail = single(exe, env, doc["plan"])
    log("replay %s: %s %s %s" % (path, verdict, s, detail))
    if verdict == "violation":
        k = common.match_known(PROP, s)
        if k:
            log("KNOWN-FINDING: property=%s %s (signature %s, replay %s)" % (PROP, k["what"], s, path))
            return 0
        log("VIOLATION property=%s replay=%s" % (PROP, path))
        return 1
    if verdict != "ok":
        raise common.HarnessFault("replay ended with %s" % verdict)
    return 0


def provisional_key(sig):
    """group candidate violations before gating: class + check + op + handle kind (type name dropped)"""
    p = sig.split("/")
    return "/".join(p[:4]) if p[0] == "semantic" else "/".join(p[:2])


def main(tier, base_seed):
    t0 = time.time()
    workers = int(os.environ.get("VERIF_WORKERS", "16"))
    scale = float(os.environ.get("VERIF_RUNS", "1"))
    results = []
    seen_sigs = set()
    agg_all, states_all = {}, set()
    per = []
    total = 0
    tree = None
    known_hits = {}
    gate_failures = []
    for flavour, mode, nruns in RUNS[tier]:
        nruns = max(CHUNK, int(nruns * scale))
        exe, env, bd = pyfleet.prepare(flavour)
        tree = tree or build.tree_id()
        tf = time.time()
        b = pyfleet.HostBatch(flavour, DRIVER, base_seed, nruns, workers, CHUNK, exe, env, extra_args=["--mode", mode])
        b.keep_run_hashes = True
        b.run()
        gate_n = min(GATE[tier], nruns)
        env2 = dict(env)
        env2["PYTHONHASHSEED"] = "4242"
        g = pyfleet.HostBatch(flavour, DRIVER, base_seed, gate_n, 3, CHUNK, exe, env2, extra_args=["--mode", mode])
        g.keep_run_hashes = True
        g.run()
        mism = [i for i, h in g.run_hash.items() if i in b.run_hash and b.run_hash[i] != h]
        gv = set((v["idx"], provisional_key(v["signature"])) for v in g.viol)
        bv = set((v["idx"], provisional_key(v["signature"])) for v in b.viol if v["idx"] < gate_n)
        if mism or gv != bv:
            # Memory-unsafe code is not deterministic.  A gate failure never turns into a verdict by itself: the candidate
            # violations below must each pass their own reproduction gates; if none does, the check ends as a harness fault.
            gate_failures.append("C19 %s/%s determinism gate failed: hash mismatches %s, verdict differences %s" % (flavour, mode, mism[:5], sorted(gv ^ bv)[:5]))
        if b.harness and not b.viol:
            raise common.HarnessFault("C19 %s/%s worker problem: %r" % (flavour, mode, b.harness[0]))
        log("[C19] %s/%s: %d runs in %.0fs, %d ops, %d abstract states, %d worker deaths, %d violating runs; gate: %d runs re-executed (3 workers, other PYTHONHASHSEED): identical"
            % (flavour, mode, nruns, time.time() - tf, b.agg.get("steps", 0), len(b.extra.get("states", ())), b.deaths, len(b.viol), gate_n))
        groups = {}
        for v in sorted(b.viol, key=lambda x: x["idx"]):
            groups.setdefault(provisional_key(v["signature"]), v)
        for key, v in groups.items():
            k = common.match_known(PROP, v["signature"]) if v["cls"] == "semantic" else None
            if k and k["what"] in known_hits:
                continue  # one replay per known finding is enough
            if len([r for r in results if not r.get("known")]) >= MAX_REPORTS:
                break
            try:
                r = handle(exe, env, flavour, mode, base_seed, v)
            except common.HarnessFault as e:
                gate_failures.append(str(e))      # this candidate did not reproduce: try the others
                continue
            if r["signature"] in seen_sigs:
                continue
            seen_sigs.add(r["signature"])
            k = common.match_known(PROP, r["signature"])
            if k:
                if k["what"] in known_hits:
                    continue
                known_hits[k["what"]] = r["signature"]
                r["known"], r["what"] = True, k["what"]
            results.append(r)
        for k, v in b.agg.items():
            agg_all[k] = agg_all.get(k, 0) + v
        states_all |= b.extra.get("states", set())
        total += nruns
        per.append({"flavour": flavour, "mode": mode, "runs": nruns, "wall_s": round(time.time() - tf, 1), "ops": b.agg.get("steps", 0),
                    "violating_runs": len(b.viol), "worker_deaths": b.deaths, "determinism_gate_runs": gate_n,
                    "violation_groups": {k: sum(1 for x in b.viol if provisional_key(x["signature"]) == k) for k in groups}})
    wall = time.time() - t0
    exe, env, bd = pyfleet.prepare("asan")
    samples = []
    for i, mode in ((0, "plain"), (1, "faults")):
        rc, out, err = pyfleet.run_single(exe, env, DRIVER, ["--gen", str(base_seed), str(i), mode])
        try:
            samples.append({"run_index": i, "mode": mode, "plan": json.loads(out.strip().split("\n")[-1])})
        except Exception:
            pass
    coverage = {
        "evaluations": total,
        "distinct_nontrivial": len(states_all),
        "rule": "one evaluation = one simulated run: 4-40 generated operations (construct, alias-copy, int/slice/mask get and set, ifelse, in-place operators, "
                "makeReadOnly, component views, element references, memoryview export and writes, ...FromBuffer) over up to 12 live handles of 1-3 array types, "
                "interleaved in the 'faults' batches with release-owner / gc-pressure / bad-index / bad-length / foreign-buffer / writable-buffer-request / read-only-attack faults, "
                "executed on the real module and on the list model in lock-step with a full invariant check of every live handle after every op. "
                "distinct_nontrivial = distinct abstract states reached after an op: hash of (kind, type, length, writable, masked, component view, owner released, storage identity) of all live handles",
        "samples": samples,
        "scheduler_steps": agg_all.get("steps", 0),
        "simulated_time": "no clock exists in the code under test; simulated time = operations executed (%d)" % agg_all.get("steps", 0),
        "runs_per_hour": int(total / max(wall, 1e-9) * 3600),
        "faults_fired": {k[6:]: v for k, v in sorted(agg_all.items()) if k.startswith("fault.")},
        "probes_hit": {k[6:]: v for k, v in sorted(agg_all.items()) if k.startswith("probe.")},
        "ops_executed": {k[3:]: v for k, v in sorted(agg_all.items()) if k.startswith("op.")},
        "ops_that_raised_as_expected": agg_all.get("outcome.raised", 0),
        "batches": per,
        "components": {"real": ["libImath, libPyImath, imath.so rebuilt from /repo's working tree with -fsanitize=address", "CPython 3.11 (PYTHONMALLOC=malloc) + boost.python 1.83, uninstrumented"],
                       "simulated": ["interpreter object lifetime (the driver holds the only references and releases them where the plan says)",
                                     "foreign buffer producers / consumers (array, ctypes, memoryview casts)", "the list-based reference model"]},
        "tree_id": tree,
    }
    assumptions = [
        "default element values are learned from the build (T(1)[0]); the property does not fix them",
        "documented refusals are expected: masking a masked reference, mask-assignment of arrays to masked references, buffer export of masked references",
        "writability is a per-handle flag inherited at derivation time (documented; asserted by upstream's own test)",
        "exceptions are compared as raised / not raised, never by type or message",
        "ASan sees only instrumented code (Imath, PyImath), not CPython/boost internals; assert() is active in the sanitizer flavours",
        "in-place arithmetic is limited to += and -= on exactly representable values (C20 owns the arithmetic); read-only handles are attacked with every in-place operator the class exports",
        "seeded sampling, not enumeration: a clean batch is evidence, not proof",
    ]
    unknown = [r for r in results if not r.get("known")]
    if gate_failures and not unknown:
        raise common.HarnessFault("; ".join(gate_failures[:3]))
    coverage["reproduction_gate_failures"] = gate_failures[:5]
    common.write_evidence(PROP, tier, base_seed, coverage, assumptions, wall, len(unknown),
                          extra={"known_findings_reported": [r["signature"] for r in results if r.get("known")]})
    log("[C19] %d runs, %d abstract states, %.0fs" % (total, len(states_all), wall))
    return common.report(PROP, results)
