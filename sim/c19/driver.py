"""C19 driver: seeded operation + fault sequences over PyImath arrays and everything derived from them
(aliases, masked references, element references, component views, exported buffers), executed on the
real module and on a list-based reference model in lock-step.  Runs inside the ASan host.
DESIGN.md section 4 and Appendix A.

  driver.py --batch [--mode plain|faults]     read "base lo hi" lines
  driver.py --plan <file.json>                execute one explicit plan, with per-op progress lines
  driver.py --gen base idx mode
"""
import array as pyarray
import ctypes
import gc
import hashlib
import json
import os
import struct
import sys

sys.path.insert(0, os.path.dirname(os.path.dirname(os.path.dirname(os.path.abspath(__file__)))))
import imath  # noqa: E402

from sim import pytypes as PT  # noqa: E402
from sim.prng import Rng, mix  # noqa: E402
from sim.c19 import families as FAM  # noqa: E402

PROGRESS = False

# ---------------------------------------------------------------------------------------------------
# type tables
# ---------------------------------------------------------------------------------------------------
ARR1D = sorted(PT.ARRAYS)
CLASS_TYPE = {an: not PT.ARRAYS[an].name.startswith("_") for an in ARR1D}       # element is a C++ class -> a[i] is a reference
BUF_FMT = {}    # array types that export the buffer protocol -> (format, dims)
for _an in ARR1D:
    try:
        _m = memoryview(getattr(imath, _an)(1))
        BUF_FMT[_an] = (_m.format, _m.ndim, _m.shape[1] if _m.ndim == 2 else 1, _m.itemsize)
        del _m
    except TypeError:
        pass
COMPS = {}      # array type -> [(property name, view array type, flat component indices)]
for _an in ARR1D:
    cls = getattr(imath, _an)
    t = PT.ARRAYS[_an]
    props = []
    for k, v in cls.__dict__.items():
        if not isinstance(v, property):
            continue
        try:
            vt = type(getattr(cls(1), k)).__name__
        except TypeError:
            continue
        if vt not in PT.ARRAYS:
            continue
        w = PT.ARRAYS[vt].n
        if _an.startswith("Box"):
            ci = list(range(0, w)) if k == "min" else list(range(w, 2 * w))
        elif _an.startswith("Quat"):
            ci = ["r", "x", "y", "z"].index(k)
            ci = [ci]
        else:
            names = "rgba" if _an[0] == "C" else "xyzw"
            ci = [names.index(k)]
        props.append((k, vt, ci))
    if props:
        COMPS[_an] = sorted(props)
IOPS = {an: [k for k in ("__iadd__", "__isub__") if k in getattr(imath, an).__dict__] for an in ARR1D}
ANY_IOPS = {an: sorted(k for k in getattr(imath, an).__dict__ if k.startswith("__i") and k not in ("__init__", "__iter__", "__instance_size__"))
            for an in ARR1D}
DEFAULTS = {}                                                                          # learned, see DESIGN (assumption)
for _an in ARR1D:
    _a = getattr(imath, _an)(1)         # (kept alive while its element is read: the start-up tables must not be the place
    DEFAULTS[_an] = tuple(PT.ARRAYS[_an].flat(_a[0]))   #  where a lifetime defect of the code under test shows)
    del _a

import re as _re
CONV = {}       # source array type -> [target array types constructible from it (converting constructors)]
for _an in ARR1D:
    _doc = getattr(getattr(imath, _an), "__init__").__doc__ or ""
    for _m in _re.finditer(r"__init__\( \(object\)arg1, \((\w+)\)arg2\) -> None", _doc):
        _src = _m.group(1)
        if _src in PT.ARRAYS and _src != _an and PT.ARRAYS[_src].n == PT.ARRAYS[_an].n and not _an.startswith(("Box", "Euler", "M", "Quat")):
            CONV.setdefault(_src, []).append(_an)
CONV = {k: sorted(set(v)) for k, v in CONV.items()}

METHODS0 = {}   # array type -> zero-argument methods returning the array type or None (mutators such as normalize(), invert() among them)
for _an in ARR1D:
    _cls = getattr(imath, _an)
    _names = []
    for _mn in sorted(_cls.__dict__):
        if _mn.startswith("__") or _mn in ("makeReadOnly", "writable"):
            continue
        _doc = getattr(getattr(_cls, _mn), "__doc__", None)
        if isinstance(_doc, str) and _re.search(r"^%s\( \(%s\)\w+\) -> (%s|None) :" % (_mn, _an, _an), _doc, _re.M):
            _names.append(_mn)
    if _names:
        METHODS0[_an] = _names

INT_WRAP = {"i8": (8, True), "u8": (8, False), "i16": (16, True), "u16": (16, False), "i32": (32, True), "u32": (32, False),
            "i64": (64, True), "b": (1, False)}


def wrap(base, v):
    if base in ("f32",):
        return PT.f32(v)
    if base == "f64":
        return float(v)
    bits, signed = INT_WRAP[base]
    if base == "b":
        return bool(v)
    v &= (1 << bits) - 1
    if signed and v >= 1 << (bits - 1):
        v -= 1 << bits
    return v


def fresh_value(tname, vseed):
    """the scalar written by an op: a pure function of (element type, value seed); components are distinct
    and position-dependent so that every write is attributable"""
    t = PT.ARRAYS[tname]
    base = t.base
    out = []
    for c in range(t.n):
        k = vseed * 7 + c * 3 + 1
        if base == "b":
            out.append(bool((vseed + c) & 1))
        elif base in ("i8",):
            out.append(k % 90 - 40)
        elif base == "u8":
            out.append(k % 200)
        elif base in ("f32", "f64"):
            out.append((k % 4000) / 4.0 - 300.0)
        elif base in ("u16", "u32"):
            out.append(k % 20000)
        else:
            out.append(k % 20000 - 5000)
    if t.name.startswith("Euler"):
        out[3] = float(vseed % 24)
    if t.name.startswith("Box"):
        d = t.n // 2
        lo = [min(a, b) for a, b in zip(out[:d], out[d:])]
        hi = [max(a, b) for a, b in zip(out[:d], out[d:])]
        out = lo + hi
    return tuple(out)


def to_real(tname, vals):
    t = PT.ARRAYS[tname]
    return t.make(list(vals))


def pack_vals(t, vals):
    if t.isfloat:
        return struct.pack("<%dd" % len(vals), *vals)
    return tuple(int(v) for v in vals)


# ---------------------------------------------------------------------------------------------------
# model
# ---------------------------------------------------------------------------------------------------
class Store:
    __slots__ = ("tname", "vals", "id")

    def __init__(self, tname, vals, sid):
        self.tname, self.vals, self.id = tname, list(vals), sid


class Handle:
    """one live object: the real thing + its model"""
    def __init__(self, real, kind, tname, store, idx, writable, masked=False, comp=None):
        self.real, self.kind, self.tname, self.store, self.idx = real, kind, tname, store, list(idx)
        self.writable, self.masked, self.comp = writable, masked, comp
        self.owner_dead = False
        self.ulen, self.upos = None, None     # masked references: length of, and positions within, the array they were taken from

    # model reads / writes -------------------------------------------------------------------------
    def get(self, k):
        v = self.store.vals[self.idx[k]]
        if self.comp is not None:
            return tuple(v[c] for c in self.comp)
        return v

    def put(self, k, val):
        si = self.idx[k]
        if self.comp is not None:
            cur = list(self.store.vals[si])
            for c, x in zip(self.comp, val):
                cur[c] = x
            self.store.vals[si] = tuple(cur)
        else:
            self.store.vals[si] = tuple(val)

    def values(self):
        return [self.get(k) for k in range(len(self.idx))]

    def hkind(self):
        s = self.kind
        if self.kind in ("varr", "str"):
            s = self.kind + ("-masked" if self.masked else "")
        if self.kind == "arr":
            s = "masked" if self.masked else "direct"
            if self.comp is not None:
                s = "comp-of-" + s if self.masked else "comp"
        return s + ("-ro" if not self.writable else "")


class Violation(Exception):
    def __init__(self, check, detail):
        Exception.__init__(self, check)
        self.check, self.detail = check, detail


# ---------------------------------------------------------------------------------------------------
# plan generation
# ---------------------------------------------------------------------------------------------------
OPS_PLAIN = [(8, "new"), (3, "newval"), (5, "alias"), (4, "convert"), (10, "get"), (8, "slice"), (8, "mask"), (8, "set_s"), (6, "set_a"),
             (5, "setm_s"), (5, "setm_a"), (4, "ifelse_s"), (3, "ifelse_a"), (8, "iop"), (5, "ro"), (5, "comp"),
             (4, "elem_w"), (4, "mv"), (3, "mv_w"), (3, "tobytes"), (3, "frombuf")]
OPS_FAULTS = OPS_PLAIN + [(9, "release"), (3, "gcp"), (6, "bad_get"), (5, "bad_set"), (6, "badbuf"), (3, "wbuf"), (6, "ro_attack")]

TYPE_FAMILIES = {
    "basic": [a for a in ARR1D if PT.ARRAYS[a].name.startswith("_")],
    "vec": [a for a in ARR1D if a[0] == "V"],
    "color": [a for a in ARR1D if a[0] == "C"],
    "other": [a for a in ARR1D if a[0] in "QMBE" and a != "BoolArray"],
}


def gen_slice(r, n):
    def pick():
        w = r.below(10)
        if w < 3:
            return None
        if w < 8:
            return r.range(-n - 2, n + 2)
        return r.choice([2 ** 31, -2 ** 31, 2 ** 40, -2 ** 40, 2 ** 63 - 1, -2 ** 63])
    step = r.weighted([(4, None), (3, 1), (3, -1), (2, 2), (2, -2), (1, 3), (1, -3), (1, 0), (1, r.choice([2 ** 40, -2 ** 40]))])
    return [pick(), pick(), step]


def gen_op_fields(r, o, op, mode, maxn, types):
    if o in ("new", "newval"):
        op["t"] = r.choice(types)
        op["n"] = r.range(0, maxn)
        op["fill"] = r.chance(0.8)
    elif o in ("get",):
        op["i"] = r.range(-maxn - 1, maxn)
        op["keep"] = r.chance(0.4)
    elif o == "bad_get":
        op["i"] = r.choice([maxn + 1, -maxn - 2, 2 ** 31, -2 ** 31, 2 ** 32, -2 ** 32, 2 ** 63 - 1, -2 ** 63, 2 ** 64, 2 ** 32 + 1])
        op["rel"] = r.chance(0.5)      # relative to the actual length: n, -n-1
    elif o == "slice":
        op["s"] = gen_slice(r, maxn)
    elif o in ("mask", "setm_s", "setm_a", "ifelse_s", "ifelse_a"):
        op["m"] = [r.choice([0, 1, 1, 0, 2, -1]) for _ in range(maxn)]
        if o == "mask":
            op["live"] = r.chance(0.35)
        op["dlen"] = r.weighted([(9, 0), (1, r.choice([-1, 1, 2, "zero"]))]) if mode == "faults" else 0
        if o == "setm_a":
            op["form"] = r.weighted([(4, "full"), (4, "packed"), (2, "bad")]) if mode == "faults" else r.weighted([(4, "full"), (4, "packed")])
        if o == "ifelse_a":
            op["dlen2"] = r.weighted([(9, 0), (1, 1)]) if mode == "faults" else 0
            op["okind"] = r.weighted([(4, "new"), (4, "masked"), (3, "slot")])
    elif o in ("set_s", "set_a", "bad_set"):
        op["idx"] = r.range(-maxn - 1, maxn) if r.chance(0.5) else gen_slice(r, maxn)
        if o == "bad_set":
            op["idx"] = r.choice([2 ** 31, -2 ** 31, 2 ** 32, 2 ** 32 + 1, 2 ** 63 - 1, -2 ** 63, maxn + 3, 2 ** 64, -2 ** 64, 2 ** 63])
        op["dlen"] = r.weighted([(9, 0), (1, r.choice([-1, 1]))]) if mode == "faults" else 0
        op["src"] = r.weighted([(6, "new"), (3, "slot"), (2, "self")])
        op["h2"] = r.below(1 << 16)
        if op["src"] == "self" and o == "set_a":
            # the source will be a masked reference of the destination itself: slices that walk over many elements
            op["idx"] = [r.choice([None, 0, 1, 2, -1, -2]), r.choice([None, None, maxn, -1]), r.choice([1, 2, 2, 3, -1, -2, None])]
    elif o == "iop":
        op["name"] = r.choice(["__iadd__", "__isub__"])
        op["rhs"] = r.weighted([(4, "scalar"), (4, "array"), (2, "masked"), (3, "unmasked")] + ([(1, "badlen")] if mode == "faults" else []))
        op["m"] = [r.below(2) for _ in range(2 * maxn + 2)]
    elif o == "comp":
        op["c"] = r.below(8)
    elif o == "elem_w":
        op["c"] = r.below(4)
    elif o == "release":
        op["what"] = r.weighted([(6, "owner"), (4, "any")])
    elif o == "gcp":
        op["n"] = r.range(1, 6)
    elif o == "tobytes":
        op["c"] = r.below(4)
    elif o == "mv_w":
        op["i"] = r.below(maxn + 1)
        op["c"] = r.below(4)
    elif o == "frombuf":
        op["t"] = r.choice(sorted(BUF_FMT))
        op["n"] = r.range(0, maxn)
        op["src"] = r.choice(["array", "ctypes", "imath"])
    elif o == "badbuf":
        op["t"] = r.choice(sorted(BUF_FMT))
        op["n"] = r.range(1, maxn)
        op["how"] = r.choice(["wrongtype", "extradim", "flat", "inner", "strided", "bytes", "wrongsize", "offset", "empty2d", "imath_other", "bigendian", "bigendian"])
    elif o == "ro_attack":
        op["how"] = r.choice(["iop_any", "set_s", "set_a", "setm_s", "setm_a", "elem", "comp_set", "mv", "method0"])
        op["m"] = [r.below(2) for _ in range(maxn)]
        op["k"] = r.below(16)
    return op


FAMILY_FIRST = {"matrix": "m_new", "array2d": "d_new", "varray": "v_new", "string": "s_new"}


def gen_plan(seed, idx, mode):
    r = Rng(seed)
    family = r.weighted([(52, "fixed1d"), (12, "matrix"), (12, "array2d"), (12, "varray"), (12, "string")])
    # swarm: which type families, which op kinds are enabled in this run
    fams = [f for f in TYPE_FAMILIES if r.chance(0.5)] or [r.choice(list(TYPE_FAMILIES))]
    types = [t for f in fams for t in TYPE_FAMILIES[f]]
    ntypes = r.range(1, 3)
    types = [r.choice(types) for _ in range(ntypes)]
    if family == "fixed1d":
        table = OPS_FAULTS if mode == "faults" else OPS_PLAIN
        first = "new"
    else:
        table = FAM.FAMILY_OPS[family]
        first = FAMILY_FIRST[family]
        if mode != "faults":
            table = [(w, o) for (w, o) in table if o not in ("release", "gcp") and not o.endswith("_bad")]
    enabled = [(w, o) for (w, o) in table if o in (first, "get", "m_row", "v_row", "s_get", "d_item") or r.chance(0.75)]
    nops = r.range(4, 40)
    maxn = r.choice([3, 6, 6, 12])
    # swarm over sizes: a few runs use long arrays (loops unrolled by 4/8/16 with a remainder, counters
    # narrower than size_t, the 200-element dispatch threshold of the in-place operators), with fewer ops
    big = r.below(100)
    if big < 4 or (family == "string" and big < 15):
        # (the container families take their dimensions from maxn only when it is larger than 12: families.gen_family_op)
        maxn = (300 if big == 0 else 70) if family == "fixed1d" else (48 if family == "string" else 20)
        nops = min(nops, 14)
    ops = []
    vs = r.below(1000)
    for k in range(nops):
        o = r.weighted(enabled) if k > 0 else first
        vs += 1
        op = {"op": o, "h": r.below(1 << 16), "v": vs}
        gen_op_fields(r, o, op, mode, maxn, types)
        FAM.gen_family_op(r, family, o, op, maxn, gen_slice)
        ops.append(op)
    return {"mode": mode, "family": family, "ops": ops}


# ---------------------------------------------------------------------------------------------------
# interpreter
# ---------------------------------------------------------------------------------------------------
class Sim(FAM.FamilyMixin):
    Violation = Violation
    Handle = Handle
    DEFAULTS = DEFAULTS
    pack_vals = staticmethod(pack_vals)
    fresh_value = staticmethod(fresh_value)
    wrap = staticmethod(wrap)
    to_real = staticmethod(to_real)

    def __init__(self, plan):
        self.plan = plan
        self.slots = []          # live Handles
        self.nstores = 0
        self.stats = {}
        self.h = hashlib.blake2b(digest_size=8)
        self.states = set()
        self.opno = -1
        self.cur = None
        self.decoys = []

    # ---- helpers -----------------------------------------------------------------------------------
    def inc(self, k, n=1):
        self.stats[k] = self.stats.get(k, 0) + n

    def new_store(self, tname, vals):
        self.nstores += 1
        return Store(tname, vals, self.nstores)

    def add(self, h):
        if len(self.slots) >= 12:
            # bounded live set: forget the oldest (its release is part of the schedule)
            self.drop(0)
        self.slots.append(h)
        return h

    def drop(self, k):
        h = self.slots.pop(k)
        # mark handles that shared its storage and were derived objects: their owner is gone
        for o in self.slots:
            if o.store is h.store:
                o.owner_dead = True
            elif h.kind == "varr" and any(o.store is rs for rs in h.store.vals):
                o.owner_dead = True
                self.inc("probe.row_view_outlives_its_variable_array")
        h.real = None
        del h
        gc.collect()

    def pick(self, ref, pred):
        c = [h for h in self.slots if pred(h)]
        if not c:
            return None
        return c[ref % len(c)]

    def arrs(self):
        return [h for h in self.slots if h.kind == "arr"]

    def call(self, fn, *a):
        try:
            return ("ok", fn(*a))
        except Exception as e:  # noqa: BLE001
            return ("exc", type(e).__name__)

    def expect(self, got, want_raise, what, h=None):
        """got: ('ok',v)|('exc',name).  want_raise: True/False"""
        if want_raise and got[0] == "ok":
            raise Violation("accepted-instead-of-raising", "%s: expected an exception, the call succeeded" % what)
        if not want_raise and got[0] == "exc":
            raise Violation("raised-unexpectedly", "%s: raised %s" % (what, got[1]))
        if got[0] == "exc":
            self.inc("outcome.raised")
        self.h.update(got[0].encode())

    def make_array(self, tname, vals):
        a = getattr(imath, tname)(len(vals))
        for i, v in enumerate(vals):
            a[i] = to_real(tname, v)
        return a

    def make_mask(self, bits):
        m = imath.IntArray(len(bits))
        for i, b in enumerate(bits):
            m[i] = b
        return m

    def elem_eq(self, tname, real_elem, vals):
        t = PT.ARRAYS[tname]
        return pack_vals(t, t.flat(real_elem)) == pack_vals(t, vals)

    # ---- the invariant: every live handle shows exactly what the model says --------------------------
    def check_all(self, after):
        for h in self.slots:
            try:
                if h.kind == "arr":
                    n = len(h.real)
                    if n != len(h.idx):
                        raise Violation("len", "len() is %d, model %d" % (n, len(h.idx)))
                    if h.real.writable() != h.writable:
                        raise Violation("writable-flag", "writable() is %s, model %s" % (h.real.writable(), h.writable))
                    t = PT.ARRAYS[h.tname]
                    for k in range(n):
                        if pack_vals(t, t.flat(h.real[k])) != pack_vals(t, h.get(k)):
                            raise Violation("element-value", "element %d reads %r, model %r" % (k, t.flat(h.real[k]), list(h.get(k))))
                elif h.kind == "elem":
                    t = PT.ARRAYS[h.tname]
                    if pack_vals(t, t.flat(h.real)) != pack_vals(t, h.get(0)):
                        raise Violation("element-value", "element reference reads %r, model %r" % (t.flat(h.real), list(h.get(0))))
                elif h.kind == "mv":
                    self.check_mv(h)
                else:
                    self.check_family(h, after)
            except Violation as v:
                v.detail = "%s handle (%s) after %s: %s" % (h.hkind(), h.tname, after, v.detail)
                v.hk = h.hkind() + ("+owner-released" if h.owner_dead else "")
                v.tn = getattr(h, "mtype", None) or getattr(h, "atype", None) or getattr(h, "vtype", None) or h.tname
                raise

    def check_mv(self, h):
        mv = h.real
        fmt, ndim, width, isz = BUF_FMT[h.tname]
        n = len(h.idx)
        shape = (n,) if ndim == 1 else (n, width)
        if mv.ndim != ndim or tuple(mv.shape) != shape or mv.itemsize != isz or mv.format != fmt:
            raise Violation("buffer-description", "ndim/shape/itemsize/format %r, expected %r" % ((mv.ndim, tuple(mv.shape), mv.itemsize, mv.format), (ndim, shape, isz, fmt)))
        prod = 1
        for s in shape:
            prod *= s
        if mv.nbytes != prod * isz:
            raise Violation("buffer-nbytes", "nbytes %d, product of shape x itemsize %d (shape %r itemsize %d)" % (mv.nbytes, prod * isz, shape, isz))
        if mv.readonly != (not h.writable):
            raise Violation("buffer-readonly-flag", "readonly %s, array writable %s" % (mv.readonly, h.writable))
        flat = []
        for k in range(n):
            flat.extend(h.get(k))
        want = struct.pack("@%d%s" % (len(flat), fmt), *flat) if flat else b""
        got = mv.tobytes()
        if got != want:
            raise Violation("buffer-contents", "exported bytes differ from the array's elements")

    def abstract_state(self):
        return hash(tuple((h.kind, h.tname, len(h.idx), h.writable, h.masked, h.comp is not None, h.owner_dead, h.store.id) for h in self.slots))

    # ---- ops ------------------------------------------------------------------------------------------
    def run(self):
        for k, op in enumerate(self.plan["ops"]):
            self.opno = k
            self.cur = op
            if PROGRESS:
                print("@ %d %s" % (k, op["op"]), flush=True)
            fn = getattr(self, "op_" + op["op"])
            self.sig_ctx = (op["op"], "-", "-")
            r = fn(op)
            if r is not False:
                self.inc("op." + op["op"])
                self.check_all(op["op"])
                self.states.add(self.abstract_state())
            self.h.update(("%d:%s;" % (k, op["op"])).encode())
        # end of run: release everything in plan order, checking the survivors each time
        while self.slots:
            self.drop(0)
            self.check_all("final-release")

    def ctx(self, op, h):
        self.sig_ctx = (op, h.hkind() if h else "-", h.tname if h else "-")

    @property
    def sig_ctx(self):
        return self._sig_ctx

    @sig_ctx.setter
    def sig_ctx(self, v):
        self._sig_ctx = v
        if PROGRESS:
            # single-run mode: lets the orchestrator name the call site of a run that dies under the sanitizer
            print("@ctx %s %s %s" % v, flush=True)

    def op_new(self, op):
        tname, n = op["t"], op["n"]
        a = getattr(imath, tname)(n)
        vals = [DEFAULTS[tname]] * n
        if op["fill"]:
            vals = [fresh_value(tname, op["v"] * 16 + i) for i in range(n)]
            for i, v in enumerate(vals):
                a[i] = to_real(tname, v)
        self.add(Handle(a, "arr", tname, self.new_store(tname, vals), range(n), True))

    def op_newval(self, op):
        tname, n = op["t"], op["n"]
        v = fresh_value(tname, op["v"])
        a = getattr(imath, tname)(to_real(tname, v), n)
        self.add(Handle(a, "arr", tname, self.new_store(tname, [v] * n), range(n), True))

    def op_alias(self, op):
        h = self.pick(op["h"], lambda x: x.kind == "arr" and x.comp is None)
        if not h:
            return False
        self.ctx("alias", h)
        a = getattr(imath, h.tname)(h.real)
        nh = Handle(a, "arr", h.tname, h.store, h.idx, h.writable, h.masked)
        nh.ulen, nh.upos, nh.ulen_alt = h.ulen, h.upos, getattr(h, "ulen_alt", ())
        self.add(nh)

    def op_convert(self, op):
        """T2Array(T1Array): the converting constructors copy element by element into a new, plain, writable array"""
        h = self.pick(op["h"], lambda x: x.kind == "arr" and x.tname in CONV)
        if not h:
            return False
        tgt = CONV[h.tname][op["v"] % len(CONV[h.tname])]
        self.ctx("convert-to-" + tgt, h)
        st, tt = PT.ARRAYS[h.tname], PT.ARRAYS[tgt]
        vals = h.values()
        want = []
        for v in vals:
            out = []
            for x in v:
                if tt.isfloat:
                    y = wrap(tt.base, float(x))
                else:
                    if isinstance(x, float) and (x != x or x in (float("inf"), float("-inf"))):
                        return False               # not convertible to an integer: undefined, not exercised
                    y = int(x)                     # C++ conversion truncates toward zero, like int()
                    lo, hi = PT.INT_RANGE[tt.base]
                    if not (lo <= y <= hi):
                        return False               # out-of-range conversion: implementation-defined, not exercised
                    y = bool(y) if tt.base == "b" else y
                out.append(y)
            want.append(tuple(out))
        got = self.call(getattr(imath, tgt), h.real)
        self.expect(got, False, "%s(%s handle)" % (tgt, h.hkind()))
        if h.masked:
            self.inc("probe.convert_from_masked_reference")
        if h.comp is not None:
            self.inc("probe.convert_from_strided_view")
        self.add(Handle(got[1], "arr", tgt, self.new_store(tgt, want), range(len(want)), True))

    def op_get(self, op):
        h = self.pick(op["h"], lambda x: x.kind == "arr")
        if not h:
            return False
        self.ctx("getitem-int", h)
        n, i = len(h.idx), op["i"]
        got = self.call(h.real.__getitem__, i)
        bad = not (-n <= i < n)
        self.expect(got, bad, "a[%d] on length %d" % (i, n))
        if bad:
            self.inc("fault.bad_index")
            return
        k = i % n if n else 0
        if not self.elem_eq(h.tname, got[1], h.get(k)):
            raise Violation("element-value", "a[%d] returned %r, model %r" % (i, PT.ARRAYS[h.tname].flat(got[1]), list(h.get(k))))
        if CLASS_TYPE[h.tname] and op["keep"]:
            if h.writable:
                # a reference into the array: later writes through it are writes to the store, and it keeps the storage alive
                self.add(Handle(got[1], "elem", h.tname, h.store, [h.idx[k]], True, comp=h.comp))
                self.inc("probe.element_reference_kept")
            else:
                # documented: read-only arrays hand out copies
                st = self.new_store(h.tname, [h.get(k)])
                self.add(Handle(got[1], "elem", h.tname, st, [0], True))

    def op_bad_get(self, op):
        h = self.pick(op["h"], lambda x: x.kind == "arr")
        if not h:
            return False
        self.ctx("getitem-int", h)
        n = len(h.idx)
        i = op["i"]
        if op["rel"]:
            i = n if i > 0 else -n - 1
        got = self.call(h.real.__getitem__, i)
        self.inc("fault.bad_index")
        self.expect(got, not (-n <= i < n), "a[%d] on length %d" % (i, n))

    def py_slice(self, s):
        return slice(s[0], s[1], s[2])

    def op_slice(self, op):
        h = self.pick(op["h"], lambda x: x.kind == "arr")
        if not h:
            return False
        self.ctx("getitem-slice", h)
        sl = self.py_slice(op["s"])
        got = self.call(h.real.__getitem__, sl)
        if op["s"][2] == 0:
            self.expect(got, True, "a[%r]" % (sl,))
            return
        want = h.values()[sl]
        self.expect(got, False, "a[%r] on length %d" % (sl, len(h.idx)))
        a = got[1]
        if type(a).__name__ != h.tname:
            raise Violation("slice-type", "slice of %s is a %s" % (h.tname, type(a).__name__))
        if (sl.step or 1) < 0 and want and h.values().index(want[-1]) == 0:
            self.inc("probe.negative_step_slice_reaching_index_0")
        nh = Handle(a, "arr", h.tname, self.new_store(h.tname, want), range(len(want)), True)
        self.add(nh)

    @staticmethod
    def maybe_legal_lengths(h):
        """operand / mask lengths other than len(h) that a masked handle may accept (the 'unmasked length'; for a masked
        reference of a masked reference - refused today - every candidate a future implementation could choose)"""
        s = set(getattr(h, "ulen_alt", ()))
        if getattr(h, "ulen", None) is not None:
            s.add(h.ulen)
        return s

    def mask_bits(self, op, n, h=None):
        bits = list(op["m"])
        while len(bits) < n + 5:
            bits += bits or [1]
        d = op.get("dlen", 0)
        ln = 0 if d == "zero" else max(0, n + d)
        while h is not None and h.masked and ln != n and ln in self.maybe_legal_lengths(h):
            # a mask as long as the array a masked reference was taken from is accepted (documented
            # non-strict match); that sub-case is neither demanded nor forbidden here: avoid it
            ln += 1
        return bits[:ln]

    def op_mask(self, op):
        h = self.pick(op["h"], lambda x: x.kind == "arr")
        if not h:
            return False
        self.ctx("getitem-mask", h)
        n = len(h.idx)
        bits = self.mask_bits(op, n, h)
        maskobj = None
        if op.get("live"):
            # the mask is a live IntArray handle (possibly itself a view); the masked reference copies the selection,
            # so later writes to that IntArray must not change what the reference selects
            mh = self.pick(op["h"] // 7, lambda x: x.kind == "arr" and x.tname == "IntArray" and x is not h and len(x.idx) == n and x.store is not h.store)
            if mh:
                bits = [int(v[0]) for v in mh.values()]
                maskobj = mh.real
                self.inc("probe.mask_from_live_intarray")
        got = self.call(h.real.__getitem__, maskobj if maskobj is not None else self.make_mask(bits))
        if len(bits) != n:
            self.inc("fault.bad_length")
        bad = len(bits) != n
        if h.masked and not bad and got[0] == "exc":
            # documented refusal (no masked reference of a masked reference). The property does not demand it: should the
            # library accept the call, the result must select like a list does (it joins the live handles below)
            self.inc("outcome.raised")
            self.h.update(b"exc")
            return
        self.expect(got, bad, "a[mask] (mask length %d, array length %d, already masked %s)" % (len(bits), n, h.masked))
        if bad:
            return
        pos = [k for k in range(n) if bits[k]]
        nh = Handle(got[1], "arr", h.tname, h.store, [h.idx[k] for k in pos], h.writable, True, h.comp)
        nh.ulen, nh.upos = (n, pos) if not h.masked else (None, None)
        if h.masked:
            nh.ulen_alt = self.maybe_legal_lengths(h) | {n}
        self.add(nh)

    def sel_indices(self, h, idx):
        """positions (within the handle) selected by an int or slice index; None if the index is invalid"""
        n = len(h.idx)
        if isinstance(idx, list):
            if idx[2] == 0:
                return None
            return list(range(n))[self.py_slice(idx)]
        if not (-n <= idx < n):
            return None
        return [idx % n]

    def op_set_s(self, op):
        h = self.pick(op["h"], lambda x: x.kind == "arr")
        if not h:
            return False
        self.ctx("setitem-scalar", h)
        idx = op["idx"]
        key = self.py_slice(idx) if isinstance(idx, list) else idx
        val = fresh_value(h.tname, op["v"])
        sel = self.sel_indices(h, idx)
        before = list(h.store.vals)
        got = self.call(h.real.__setitem__, key, to_real(h.tname, val))
        bad = sel is None or not h.writable
        if not h.writable:
            self.inc("fault.write_via_readonly")
        self.expect(got, bad, "a[%r] = scalar (writable %s)" % (key, h.writable))
        if not bad:
            for k in sel:
                h.put(k, val)
        else:
            assert h.store.vals == before

    def op_bad_set(self, op):
        self.inc("fault.bad_index")
        return self.op_set_s(op)

    def live_data(self, op, tname, ln, avoid_store):
        """a live handle (possibly masked or strided) of element type tname and length ln with storage of its own, to be
        used as the data operand of an assignment / in-place operation; None if there is none"""
        if (op["h"] // 11) % 3 == 0:
            return None
        o = self.pick(op["h"] // 5, lambda x: x.kind == "arr" and x.tname == tname and x.store is not avoid_store and len(x.idx) == ln)
        if o is None:
            return None
        self.inc("probe.data_operand_is_live_handle")
        self.last_live_store = o.store
        if o.masked or o.comp is not None:
            self.inc("probe.data_operand_is_masked_or_strided_view")
        return o.real, o.values()

    def source_array(self, op, h, want_len):
        """right-hand side array for an assignment: fresh, or an existing handle of the same type with separate storage"""
        ln = max(0, want_len + op.get("dlen", 0))
        n = len(h.idx)
        if op.get("src") == "self" and not h.masked and 0 < ln <= n:
            # a fresh masked reference of the destination itself that selects exactly ln of its elements
            # (a[::2] = a[mask]): as on a list, the right-hand side is read before anything is written
            x, cand, pos = (op["h2"] * 2654435761) % (1 << 32), list(range(n)), []
            for _ in range(ln):
                x = (x * 1103515245 + 12345) % (1 << 31)
                pos.append(cand.pop((x >> 8) % len(cand)))
            pos.sort()
            cur = h.values()
            self.inc("probe.assign_source_is_masked_reference_of_destination")
            self.ctx("setitem-array-source-shares-storage", h)
            return h.real[self.make_mask([1 if k in pos else 0 for k in range(n)])], [cur[k] for k in pos]
        if op.get("src") == "slot":
            # one time in three the source may be a view of the destination's own storage (a[1:4] = a[mask]): like
            # `l[1:4] = [l[i] for i in sel]` on a list, the right-hand side is read before anything is written
            share = (op["h2"] // 7) % 3 == 0
            o = self.pick(op["h2"], lambda x: x.kind == "arr" and x.tname == h.tname and (share or x.store is not h.store) and len(x.idx) == ln)
            if o:
                self.inc("probe.assign_from_live_handle")
                if o.store is h.store:
                    self.inc("probe.assign_source_shares_storage_with_destination")
                    self.ctx("setitem-array-source-shares-storage", h)
                return o.real, o.values()
        vals = [fresh_value(h.tname, op["v"] * 16 + 5 + i) for i in range(ln)]
        return self.make_array(h.tname, vals), vals

    def op_set_a(self, op):
        h = self.pick(op["h"], lambda x: x.kind == "arr")
        if not h:
            return False
        self.ctx("setitem-array", h)
        idx = op["idx"]
        key = self.py_slice(idx) if isinstance(idx, list) else idx
        sel = self.sel_indices(h, idx)
        src, svals = self.source_array(op, h, len(sel) if sel is not None else 1)
        got = self.call(h.real.__setitem__, key, src)
        bad = sel is None or not h.writable or len(svals) != len(sel)
        if sel is not None and len(svals) != len(sel):
            self.inc("fault.bad_length")
        if not h.writable:
            self.inc("fault.write_via_readonly")
        self.expect(got, bad, "a[%r] = array of %d (selects %s, writable %s)" % (key, len(svals), None if sel is None else len(sel), h.writable))
        if not bad:
            for k, v in zip(sel, svals):
                h.put(k, v)

    def op_setm_s(self, op):
        h = self.pick(op["h"], lambda x: x.kind == "arr")
        if not h:
            return False
        self.ctx("setitem-mask-scalar", h)
        n = len(h.idx)
        bits = self.mask_bits(op, n, h)
        val = fresh_value(h.tname, op["v"])
        got = self.call(h.real.__setitem__, self.make_mask(bits), to_real(h.tname, val))
        if len(bits) != n:
            self.inc("fault.bad_length")
        bad = not h.writable or len(bits) != n
        if not h.writable:
            self.inc("fault.write_via_readonly")
        self.expect(got, bad, "a[mask] = scalar (mask length %d, array length %d, writable %s)" % (len(bits), n, h.writable))
        if not bad:
            for k in range(n):
                if bits[k]:
                    h.put(k, val)

    def op_setm_a(self, op):
        h = self.pick(op["h"], lambda x: x.kind == "arr")
        if not h:
            return False
        self.ctx("setitem-mask-array", h)
        n = len(h.idx)
        bits = self.mask_bits(op, n, h)
        cnt = sum(1 for b in bits[:n] if b)
        form = op["form"]
        ln = n if form == "full" else cnt if form == "packed" else n + 1 + (1 if n + 1 == cnt else 0)
        vals = [fresh_value(h.tname, op["v"] * 16 + 3 + i) for i in range(ln)]
        share = (op["h"] // 13) % 3 == 0     # the data may be a view of the destination's own storage: read before written
        ld = self.live_data(op, h.tname, ln, None if share else h.store)
        if ld:
            data, vals = ld
            if self.last_live_store is h.store:
                self.inc("probe.assign_source_shares_storage_with_destination")
                self.ctx("setitem-mask-array-source-shares-storage", h)
        else:
            data = self.make_array(h.tname, vals)
        got = self.call(h.real.__setitem__, self.make_mask(bits), data)
        bad = not h.writable or len(bits) != n or (ln != n and ln != cnt)
        if not h.writable:
            self.inc("fault.write_via_readonly")
        if len(bits) != n or form == "bad":
            self.inc("fault.bad_length")
        if h.masked and not bad and got[0] == "exc":
            # documented refusal ("We don't support setting item masks for masked reference arrays"): nothing changes.
            # The property does not demand the refusal: should the library accept the call, list semantics apply (below)
            self.inc("outcome.raised")
            self.h.update(b"exc")
            return
        self.expect(got, bad, "a[mask] = array of %d (mask length %d, selected %d, array length %d, masked %s, writable %s)" % (ln, len(bits), cnt, n, h.masked, h.writable))
        if not bad:
            if ln == n:
                for k in range(n):
                    if bits[k]:
                        h.put(k, vals[k])
            else:
                j = 0
                for k in range(n):
                    if bits[k]:
                        h.put(k, vals[j])
                        j += 1

    def op_ifelse_s(self, op):
        h = self.pick(op["h"], lambda x: x.kind == "arr" and x.comp is None)
        if not h:
            return False
        self.ctx("ifelse-scalar", h)
        n = len(h.idx)
        bits = self.mask_bits(op, n, h)
        val = fresh_value(h.tname, op["v"])
        got = self.call(h.real.ifelse, self.make_mask(bits), to_real(h.tname, val))
        bad = len(bits) != n
        if bad:
            self.inc("fault.bad_length")
        if not h.writable:
            self.inc("probe.ifelse_on_readonly")
        self.expect(got, bad, "a.ifelse(choice, scalar) (choice length %d, array length %d, writable %s)" % (len(bits), n, h.writable))
        if not bad:
            want = [h.get(k) if bits[k] else val for k in range(n)]
            self.add(Handle(got[1], "arr", h.tname, self.new_store(h.tname, want), range(n), True))

    def op_ifelse_a(self, op):
        h = self.pick(op["h"], lambda x: x.kind == "arr" and x.comp is None)
        if not h:
            return False
        self.ctx("ifelse-array", h)
        n = len(h.idx)
        bits = self.mask_bits(op, n, h)
        ln = n + op.get("dlen2", 0)
        ovals = [fresh_value(h.tname, op["v"] * 16 + 7 + i) for i in range(ln)]
        other = None
        if op.get("okind") == "masked" and ln > 0:
            # `other` is itself a masked reference selecting exactly ln elements of a longer array (not a prefix)
            total = ln + 1 + (op["v"] % 3)
            drop = set(((op["v"] * 5 + j * 3) % total) for j in range(total - ln))
            j = 0
            while len(drop) < total - ln:
                drop.add(j)
                j += 1
            picked = [p for p in range(total) if p not in drop][:ln]
            uvals = [fresh_value(h.tname, op["v"] * 16 + 9 + i) for i in range(total)]
            under = self.make_array(h.tname, uvals)
            other = under[self.make_mask([1 if p in picked else 0 for p in range(total)])]
            ovals = [uvals[p] for p in picked]
            self.inc("probe.ifelse_other_is_masked_reference")
        elif op.get("okind") == "slot":
            o = self.pick(op["h"] // 3, lambda x: x.kind == "arr" and x.tname == h.tname and len(x.idx) == ln and x is not h)
            if o:
                other, ovals = o.real, o.values()
                self.inc("probe.ifelse_other_is_live_handle")
        if other is None:
            other = self.make_array(h.tname, ovals)
        got = self.call(h.real.ifelse, self.make_mask(bits), other)
        bad = len(bits) != n or ln != n
        if bad:
            self.inc("fault.bad_length")
        if not h.writable:
            self.inc("probe.ifelse_on_readonly")
        self.expect(got, bad, "a.ifelse(choice, array) (choice %d, other %d, array %d, writable %s)" % (len(bits), ln, n, h.writable))
        if not bad:
            want = [h.get(k) if bits[k] else ovals[k] for k in range(n)]
            self.add(Handle(got[1], "arr", h.tname, self.new_store(h.tname, want), range(n), True))

    def arith(self, h, name, a, b):
        t = PT.ARRAYS[h.tname]
        sign = 1 if name == "__iadd__" else -1
        return tuple(wrap(t.base, x + sign * y) for x, y in zip(a, b))

    def op_iop(self, op):
        h = self.pick(op["h"], lambda x: x.kind == "arr" and op["name"] in IOPS[x.tname])
        if not h:
            return False
        self.ctx("inplace-" + op["rhs"], h)
        n = len(h.idx)
        name, rhs = op["name"], op["rhs"]
        fn = getattr(h.real, name)
        small = lambda s: tuple(wrap(PT.ARRAYS[h.tname].base, (x % 7) if not isinstance(x, bool) else x) for x in fresh_value(h.tname, s))  # noqa: E731
        bad = not h.writable
        if not h.writable:
            self.inc("fault.write_via_readonly")
        per = None
        if rhs == "scalar":
            v = small(op["v"])
            got = self.call(fn, to_real(h.tname, v))
            per = [v] * n
        elif rhs in ("array", "badlen"):
            ln = n if rhs == "array" else [n + 1, 0, max(0, n - 1), 2 * n + 1][op["v"] % 4]
            if rhs == "badlen" and ln == n:
                ln = n + 1
            while ln != n and h.masked and ln in self.maybe_legal_lengths(h):
                ln += 1     # the unmasked length is a legal operand length for a masked left-hand side
            vals = [small(op["v"] * 16 + i) for i in range(ln)]
            # (one time in three the operand may be a view of the destination's own storage: r1 = a[m1]; r2 = a[m2];
            # r1 += r2 - the operand's values at the time of the call count, defect 25)
            ld = self.live_data(op, h.tname, ln, None if (op["h"] // 17) % 3 == 0 else h.store) if rhs == "array" else None
            if ld and all(all(isinstance(x, bool) or abs(x) < 1 << 20 for x in v) for v in ld[1]):
                data, vals = ld
                if self.last_live_store is h.store:
                    self.inc("probe.inplace_operand_shares_storage_with_destination")
                    self.ctx("inplace-array-operand-shares-storage", h)
            else:
                data = self.make_array(h.tname, vals)
            got = self.call(fn, data)
            if ln != n:
                bad = True
                self.inc("fault.bad_length")
            per = vals[:n]
        elif rhs == "masked":
            # right-hand side is a masked reference selecting exactly n of its elements
            total = n + 1 + (op["v"] % 3)
            pos = [i for i in range(total)]
            bits = [0] * total
            picked = [p for p, b in zip(pos, op["m"]) if b][:n]
            rest = [p for p in pos if p not in picked]
            picked = sorted(picked + rest[:n - len(picked)])
            for p in picked:
                bits[p] = 1
            uvals = [small(op["v"] * 16 + i) for i in range(total)]
            under = self.make_array(h.tname, uvals)
            ref = under[self.make_mask(bits)]
            got = self.call(fn, ref)
            per = [uvals[p] for p in picked]
            self.inc("probe.masked_rhs")
        else:
            # left-hand side masked, right-hand side as long as the *unmasked* array: indexed through the mask
            if not h.masked or h.ulen is None:
                return False
            vals = [small(op["v"] * 16 + i) for i in range(h.ulen)]
            if op["v"] % 2 and h.ulen > 0:
                # the operand of unmasked length is itself a masked reference (selecting exactly ulen elements of a longer array)
                total = h.ulen + 1 + (op["v"] % 3)
                drop = set(((op["v"] * 7 + j * 3) % total) for j in range(total - h.ulen))
                j = 0
                while len(drop) < total - h.ulen:
                    drop.add(j)
                    j += 1
                picked = [p for p in range(total) if p not in drop][:h.ulen]
                uvals = [small(op["v"] * 16 + 40 + i) for i in range(total)]
                under = self.make_array(h.tname, uvals)
                data = under[self.make_mask([1 if p in picked else 0 for p in range(total)])]
                vals = [uvals[p] for p in picked]
                self.inc("probe.masked_lhs_unmasked_length_masked_rhs")
            else:
                data = self.make_array(h.tname, vals)
            got = self.call(fn, data)
            per = [vals[p] for p in h.upos]
            self.inc("probe.masked_lhs_unmasked_rhs")
            if h.ulen == n:
                self.inc("probe.masked_lhs_full_mask")
        if rhs == "unmasked" and not bad and got[0] == "exc" and h.ulen != n:
            # an operand as long as the array the masked reference was taken from is accepted today (documented
            # non-strict match) and then selects through the mask; the property does not demand that it be accepted:
            # a refusal changes nothing
            self.inc("outcome.raised")
            self.h.update(b"exc")
            return
        self.expect(got, bad, "a %s= %s (length %d, writable %s)" % ("+" if name == "__iadd__" else "-", rhs, n, h.writable))
        if not bad:
            if h.masked:
                self.inc("probe.inplace_on_masked_reference")
            for k in range(n):
                h.put(k, self.arith(h, name, h.get(k), per[k]))

    def op_ro(self, op):
        h = self.pick(op["h"], lambda x: x.kind == "arr")
        if not h:
            return False
        self.ctx("makeReadOnly", h)
        h.real.makeReadOnly()
        h.writable = False
        if len(self.slots) > 1:
            self.inc("fault.make_readonly_midstream")

    def op_comp(self, op):
        h = self.pick(op["h"], lambda x: x.kind == "arr" and x.tname in COMPS)
        if not h:
            return False
        self.ctx("component-view", h)
        props = COMPS[h.tname]
        name, vt, ci = props[op["c"] % len(props)]
        got = self.call(getattr, h.real, name)
        self.expect(got, False, "a.%s" % name)
        if h.comp is not None:
            # a component of a component view (boxes.min.x): compose the selections
            ci = [h.comp[c] for c in ci]
            self.inc("probe.component_of_component_view")
        nh = Handle(got[1], "arr", vt, h.store, h.idx, h.writable, h.masked, ci)
        nh.ulen, nh.upos, nh.ulen_alt = h.ulen, h.upos, getattr(h, "ulen_alt", ())
        if h.masked:
            self.inc("probe.component_view_of_masked")
        self.add(nh)

    def op_elem_w(self, op):
        h = self.pick(op["h"], lambda x: x.kind == "elem" and x.tname[0] in "VC")
        if not h:
            return False
        self.ctx("element-reference-write", h)
        t = PT.ARRAYS[h.tname]
        names = "rgba" if h.tname.startswith("C4") else "xyzw"
        c = op["c"] % t.n
        v = fresh_value(h.tname, op["v"])[c]
        got = self.call(setattr, h.real, names[c], v)
        self.expect(got, False, "element.%s = %r" % (names[c], v))
        cur = list(h.get(0))
        cur[c] = v
        h.put(0, cur)
        if h.owner_dead:
            self.inc("probe.element_reference_written_after_owner_release")

    def op_release(self, op):
        if not self.slots:
            return False
        if op["what"] == "owner":
            # prefer an object that something else was derived from
            for k, h in enumerate(self.slots):
                if any(o is not h and o.store is h.store for o in self.slots):
                    if (op["h"] + k) % 2 == 0:
                        self.inc("fault.release_owner")
                        self.drop(k)
                        return
        k = op["h"] % len(self.slots)
        shared = any(o is not self.slots[k] and o.store is self.slots[k].store for o in self.slots)
        self.inc("fault.release_owner" if shared else "fault.release_plain")
        self.drop(k)

    def op_gcp(self, op):
        # recycle freed blocks: decoys of the sizes in play, so that a dangling view reads something else
        self.decoys = []
        for h in list(self.slots)[:4]:
            if h.kind == "arr":
                for _ in range(op["n"]):
                    d = getattr(imath, h.store.tname)(max(1, len(h.store.vals)))
                    self.decoys.append(d)
        gc.collect()
        self.inc("fault.gc_pressure")

    def op_mv(self, op):
        h = self.pick(op["h"], lambda x: x.kind == "arr" and x.tname in BUF_FMT)
        if not h:
            return False
        self.ctx("memoryview", h)
        got = self.call(memoryview, h.real)
        if not h.writable:
            self.inc("probe.buffer_export_of_readonly")
        # documented refusal: masked references; (strided component views are exported with their stride)
        self.expect(got, h.masked, "memoryview(a) (masked %s, writable %s)" % (h.masked, h.writable))
        if h.masked:
            return
        if h.comp is not None:
            self.inc("probe.buffer_export_of_component_view")
        nh = Handle(got[1], "mv", h.tname, h.store, h.idx, h.writable, False, h.comp)
        self.add(nh)

    def op_tobytes(self, op):
        """other consumers of the exported buffer: bytes(a), bytearray(a), ctypes from_buffer_copy, memoryview.cast('B')"""
        h = self.pick(op["h"], lambda x: x.kind == "arr" and x.tname in BUF_FMT)
        if not h:
            return False
        how = ["bytes", "bytearray", "copy", "cast"][op["c"] % 4]
        self.ctx("buffer-consumer-" + how, h)
        fmt, ndim, width, isz = BUF_FMT[h.tname]
        n = len(h.idx)
        flat = []
        for k in range(n):
            flat.extend(h.get(k))
        want = struct.pack("@%d%s" % (len(flat), fmt), *flat) if flat else b""
        if how == "bytes":
            got = self.call(bytes, h.real)
        elif how == "bytearray":
            got = self.call(bytearray, h.real)
        elif how == "copy":
            got = self.call((ctypes.c_ubyte * len(want)).from_buffer_copy, h.real)
        else:
            got = self.call(lambda a: memoryview(a).cast("B").tobytes(), h.real)
        if how == "cast" and not h.masked:
            # memoryview.cast has rules of its own (no zeros in the shape, C-contiguous only): a refusal by the
            # interpreter is not the array's doing - only wrong bytes are
            if got[0] == "ok" and bytes(got[1]) != want:
                raise Violation("buffer-contents", "memoryview(a).cast('B') gives other bytes than the elements")
            return
        if how == "copy" and h.comp is not None and not h.masked:
            # from_buffer_copy needs a contiguous buffer: a refusal is fine, wrong bytes are not
            if got[0] == "ok" and bytes(got[1]) != want:
                raise Violation("buffer-contents", "from_buffer_copy of a strided view gives other bytes than the elements")
            return
        self.expect(got, h.masked, "%s(a) (masked %s)" % (how, h.masked))
        if not h.masked and bytes(got[1]) != want:
            raise Violation("buffer-contents", "%s(a) gives other bytes than the array's elements" % how)

    def op_mv_w(self, op):
        h = self.pick(op["h"], lambda x: x.kind == "mv" and len(x.idx) > 0)
        if not h:
            return False
        self.ctx("memoryview-write", h)
        fmt, ndim, width, isz = BUF_FMT[h.tname]
        n = len(h.idx)
        i = op["i"] % n
        c = op["c"] % width
        v = fresh_value(h.tname, op["v"])[c if h.comp is None else 0]
        key = i if ndim == 1 else (i, c)
        got = self.call(h.real.__setitem__, key, v)
        if not h.writable:
            self.inc("fault.write_via_readonly")
        self.expect(got, not h.writable, "memoryview[%r] = %r (array writable %s)" % (key, v, h.writable))
        if h.writable:
            cur = list(h.get(i))
            cur[c] = v
            h.put(i, cur)
            if h.owner_dead:
                self.inc("probe.buffer_written_after_owner_release")

    # ---- foreign buffers -----------------------------------------------------------------------------
    def foreign(self, tname, n, src, vseed):
        fmt, ndim, width, isz = BUF_FMT[tname]
        vals = [fresh_value(tname, vseed * 16 + i) for i in range(n)]
        flat = [x for v in vals for x in v]
        if src == "array" and ndim == 1:
            return pyarray.array(fmt, flat), vals
        if src == "imath":
            return self.make_array(tname, vals), vals
        ct = {"f": ctypes.c_float, "d": ctypes.c_double, "i": ctypes.c_int, "h": ctypes.c_short, "l": ctypes.c_long, "B": ctypes.c_ubyte}[fmt]
        if ndim == 1:
            return (ct * n)(*flat), vals
        inner = ct * width
        return (inner * n)(*[inner(*v) for v in vals]), vals

    def op_frombuf(self, op):
        tname, n = op["t"], op["n"]
        self.sig_ctx = ("FromBuffer-matching-" + op["src"], "-", tname)
        fn = getattr(imath, tname + "FromBuffer", None)
        if fn is None:
            return False
        obj, vals = self.foreign(tname, n, op["src"], op["v"])
        got = self.call(fn, obj)
        self.expect(got, False, "%sFromBuffer(matching %s buffer of %d)" % (tname, op["src"], n))
        self.add(Handle(got[1], "arr", tname, self.new_store(tname, vals), range(n), True))
        self.inc("fault.foreign_buffer_matching")

    def op_badbuf(self, op):
        tname, n, how = op["t"], op["n"], op["how"]
        self.sig_ctx = ("FromBuffer-mismatch-" + how, "-", tname)
        fn = getattr(imath, tname + "FromBuffer", None)
        if fn is None:
            return False
        fmt, ndim, width, isz = BUF_FMT[tname]
        other = {"f": "d", "d": "f", "i": "f", "h": "i", "l": "d", "B": "h"}[fmt]
        ct = {"f": ctypes.c_float, "d": ctypes.c_double, "i": ctypes.c_int, "h": ctypes.c_short, "l": ctypes.c_long, "B": ctypes.c_ubyte}
        vals = [fresh_value(tname, op["v"] * 16 + i) for i in range(2 * n + 2)]
        obj = None
        if how == "wrongtype":
            inner = ct[other] * width
            obj = (ct[other] * n)(*[0] * n) if ndim == 1 else (inner * n)()
        elif how == "extradim":
            obj = ((ct[fmt] * width) * 2 * n)() if ndim == 2 else ((ct[fmt] * 3) * n)()
        elif how == "flat":
            if ndim == 1:
                return False
            obj = (ct[fmt] * (n * width))()
        elif how == "inner":
            if ndim == 1:
                return False
            obj = ((ct[fmt] * (width + 1)) * n)()
        elif how == "strided":
            if n < 2:
                return False     # (a one-element strided view is contiguous)
            # right element type, rank and extent, but not contiguous. The property demands rejection only for a wrong
            # type or size: a refusal is fine, and so is a copy of exactly the logical elements (checked below)
            if ndim == 1:
                obj = memoryview(pyarray.array(fmt, [v[0] for v in vals[:2 * n]]))[::2]
                strided_want = [vals[2 * k] for k in range(n)]
            else:
                # every 2nd row / rows in reverse order
                rows = memoryview(bytearray(isz * width * 2 * n)).cast("B").cast(fmt, shape=[2 * n, width])
                for r_ in range(2 * n):
                    for c_ in range(width):
                        rows[r_, c_] = vals[r_][c_]
                obj = rows[::2] if op["v"] % 2 else rows[n - 1::-1]
                strided_want = [vals[2 * k] for k in range(n)] if op["v"] % 2 else [vals[n - 1 - k] for k in range(n)]
        elif how == "bytes":
            obj = bytes(isz * width * n)
        elif how == "wrongsize":
            obj = memoryview(bytes(isz * width * n)).cast("B")
        elif how == "offset":
            if ndim == 1:
                return False
            big = ((ct[fmt] * (width + 2)) * n)()
            obj = memoryview(big)[:, 1:1 + width] if False else None
            if obj is None:
                return False
        elif how == "empty2d":
            obj = ((ct[fmt] * 0) * n)() if ndim == 2 else None
            if obj is None:
                return False
        elif how == "bigendian":
            # right scalar type, rank and extent, but a foreign byte order ('>f'): must be rejected, not copied raw
            be = ct[fmt].__ctype_be__ if hasattr(ct[fmt], "__ctype_be__") else None
            if be is None or isz == 1:
                return False
            obj = (be * n)(*[1] * n) if ndim == 1 else ((be * width) * n)()
        elif how == "imath_other":
            cands = [a for a in sorted(BUF_FMT) if BUF_FMT[a][:3] != BUF_FMT[tname][:3]]
            o2 = cands[op["v"] % len(cands)]
            obj = getattr(imath, o2)(n)
        got = self.call(fn, obj)
        self.inc("fault.foreign_buffer_" + how)
        if how == "strided" and got[0] == "ok":
            res = got[1]
            if len(res) != n:
                raise Violation("len", "%sFromBuffer(strided buffer of %d elements) has length %d" % (tname, n, len(res)))
            for k in range(n):
                if not self.elem_eq(tname, res[k], strided_want[k]):
                    raise Violation("buffer-contents", "%sFromBuffer(strided buffer): element %d is %r, the buffer's element is %r" % (tname, k, res[k], strided_want[k]))
            self.inc("outcome.strided_foreign_buffer_accepted")
            return
        # a buffer whose element type / rank / inner extent does not match must be rejected
        self.expect(got, True, "%sFromBuffer(%s buffer)" % (tname, how))

    def op_wbuf(self, op):
        """a consumer that asks for a writable buffer (ctypes from_buffer = PyBUF_WRITABLE)"""
        h = self.pick(op["h"], lambda x: x.kind == "arr" and x.tname in BUF_FMT and not x.masked and x.comp is None and len(x.idx) > 0)
        if not h:
            return False
        self.ctx("writable-buffer-request", h)
        fmt, ndim, width, isz = BUF_FMT[h.tname]
        ct = {"f": ctypes.c_float, "d": ctypes.c_double, "i": ctypes.c_int, "h": ctypes.c_short, "l": ctypes.c_long, "B": ctypes.c_ubyte}[fmt]
        n = len(h.idx)
        got = self.call((ct * (n * width)).from_buffer, h.real)
        self.inc("fault.consumer_requests_writable")
        if got[0] == "ok":
            # whatever the consumer writes must never reach read-only data
            v = fresh_value(h.tname, op["v"])[0]
            got[1][0] = v
            if h.writable:
                cur = list(h.get(0))
                cur[0] = v
                h.put(0, cur)
            del got

    def op_ro_attack(self, op):
        """every mutating path through a read-only handle must raise and leave the data unchanged"""
        h = self.pick(op["h"], lambda x: x.kind == "arr" and not x.writable)
        if not h:
            return False
        how = op["how"]
        self.ctx("readonly-attack-" + how, h)
        n = len(h.idx)
        self.inc("fault.write_via_readonly")
        val = to_real(h.tname, fresh_value(h.tname, op["v"]))
        if how == "iop_any":
            names = ANY_IOPS[h.tname]
            if not names:
                return False
            name = names[op["k"] % len(names)]
            nz = tuple((abs(x) % 5) + 1 if not isinstance(x, bool) else True for x in fresh_value(h.tname, op["v"]))
            args = [to_real(h.tname, nz)]
            got = self.call(getattr(h.real, name), *args)
            if got[0] == "exc" and got[1] in ("ArgumentError", "TypeError"):
                # that operator takes another operand type: try an array / plain number
                got = self.call(getattr(h.real, name), self.make_array(h.tname, [nz] * n))
                if got[0] == "exc" and got[1] in ("ArgumentError", "TypeError"):
                    got = self.call(getattr(h.real, name), 2)
            self.expect(got, True, "read-only a.%s(...)" % name)
        elif how == "method0":
            # every zero-argument method returning the array (or None): mutators (normalize, invert, ...) must refuse a
            # read-only array, the others must leave it alone - either way the invariant check finds the data unchanged
            names = METHODS0.get(h.tname)
            if not names:
                return False
            name = names[op["k"] % len(names)]
            self.ctx("readonly-attack-method-" + name, h)
            self.call(getattr(h.real, name))
        elif how == "set_s":
            got = self.call(h.real.__setitem__, slice(None), val)
            self.expect(got, True, "read-only a[:] = scalar")
        elif how == "set_a":
            got = self.call(h.real.__setitem__, slice(None), self.make_array(h.tname, [fresh_value(h.tname, op["v"] + i) for i in range(n)]))
            self.expect(got, True, "read-only a[:] = array")
        elif how == "setm_s":
            bits = (op["m"] * (n + 1))[:n]
            got = self.call(h.real.__setitem__, self.make_mask(bits), val)
            self.expect(got, True, "read-only a[mask] = scalar")
        elif how == "setm_a":
            bits = (op["m"] * (n + 1))[:n]
            got = self.call(h.real.__setitem__, self.make_mask(bits), self.make_array(h.tname, [fresh_value(h.tname, op["v"] + i) for i in range(n)]))
            self.expect(got, True, "read-only a[mask] = array")
        elif how == "elem":
            if not (CLASS_TYPE[h.tname] and h.tname[0] in "VC" and n):
                return False
            e = h.real[op["k"] % n]
            names = "xyzw" if h.tname[0] == "V" or h.tname.startswith("C3") else "rgba"
            try:
                setattr(e, names[0], fresh_value(h.tname, op["v"])[0])
            except Exception:  # noqa: BLE001 - refusing is fine, a copy is fine; the invariant check decides
                pass
        elif how == "comp_set":
            if h.tname not in COMPS or h.comp is not None:
                return False
            name, vt, ci = COMPS[h.tname][op["k"] % len(COMPS[h.tname])]
            view = getattr(h.real, name)
            got = self.call(view.__setitem__, slice(None), to_real(vt, fresh_value(vt, op["v"])))
            self.expect(got, True, "read-only a.%s[:] = scalar" % name)
        elif how == "mv":
            if h.tname not in BUF_FMT or h.masked or not n:
                return False
            got = self.call(memoryview, h.real)
            if got[0] == "ok":
                fmt, ndim, width, isz = BUF_FMT[h.tname]
                g2 = self.call(got[1].__setitem__, 0 if ndim == 1 else (0, 0), fresh_value(h.tname, op["v"])[0])
                self.expect(g2, True, "write through the buffer of a read-only array")


# ---------------------------------------------------------------------------------------------------
def execute(plan):
    sim = Sim(plan)
    out = {"verdict": "ok", "signature": None, "detail": None}
    try:
        sim.run()
    except Violation as v:
        op, hk, tn = sim.sig_ctx
        hk = getattr(v, "hk", hk)
        tn = getattr(v, "tn", tn)
        out["verdict"] = "violation"
        out["signature"] = "semantic/%s/%s/%s/%s" % (v.check, op, hk, tn)
        out["detail"] = "op #%d %s: %s" % (sim.opno, json.dumps(sim.cur), v.detail)
    out["stats"] = sim.stats
    out["states"] = sim.states
    out["hash"] = sim.h.hexdigest()
    out["nops"] = sim.opno + 1
    sim.slots = []
    sim.decoys = []
    gc.collect()
    return out


def batch(mode):
    out = sys.stdout
    for line in sys.stdin:
        parts = line.split()
        if len(parts) < 3:
            continue
        base, lo, hi = int(parts[0]), int(parts[1]), int(parts[2])
        agg = {}
        states = set()
        ch = hashlib.blake2b(digest_size=8)
        for idx in range(lo, hi):
            seed = mix(base, 19, idx)
            plan = gen_plan(seed, idx, mode)
            out.write("BEGIN %d %d %s\n" % (idx, seed, mode))
            out.flush()
            res = execute(plan)
            for k, v in res["stats"].items():
                agg[k] = agg.get(k, 0) + v
            agg["runs"] = agg.get("runs", 0) + 1
            agg["steps"] = agg.get("steps", 0) + res["nops"]
            states |= res["states"]
            ch.update(res["hash"].encode())
            if res["verdict"] != "ok":
                out.write("END %d %s %s\n" % (idx, res["verdict"], json.dumps({"signature": res["signature"], "detail": res["detail"]})))
            else:
                out.write("END %d ok %s\n" % (idx, res["hash"]))
        out.write("STATS %d %s\n" % (lo, json.dumps({"agg": agg, "hash": ch.hexdigest(), "sets": {"states": sorted(states)}})))
        out.write("DONE %d\n" % lo)
        out.flush()


if __name__ == "__main__":
    a = sys.argv
    if a[1] == "--batch":
        batch(a[a.index("--mode") + 1] if "--mode" in a else "plain")
    elif a[1] == "--plan":
        PROGRESS = True
        with open(a[2]) as f:
            doc = json.load(f)
        print("BEGIN 0 0 %s" % doc["plan"]["mode"], flush=True)
        res = execute(doc["plan"])
        print("RESULT " + json.dumps({"verdict": res["verdict"], "signature": res["signature"], "detail": res["detail"], "hash": res["hash"], "trace": None}), flush=True)
    elif a[1] == "--gen":
        idx = int(a[3])
        print(json.dumps(gen_plan(mix(int(a[2]), 19, idx), idx, a[4])))
    elif a[1] == "--tables":
        print(json.dumps({"buf": BUF_FMT, "comps": {k: [(p[0], p[1]) for p in v] for k, v in COMPS.items()}, "iops": IOPS}, indent=1))
