"""Build the embedding hosts (plain / asan / tsan) and the native simulator library per flavour."""
import hashlib
import os
import subprocess

from . import build

HERE = os.path.dirname(os.path.abspath(__file__))
NATIVE = os.path.join(HERE, "native")

HOST_FLAGS = {
    "plain": [],
    "asan": ["-fsanitize=address", "-DHOST_ASAN"],
    "tsan": ["-fsanitize=thread", "-DHOST_TSAN"],
}
LIB_FLAGS = {
    "plain": ["-O2"],
    "asan": ["-O1", "-fsanitize=address", "-fno-omit-frame-pointer"],
    "tsan": ["-O1", "-fsanitize=thread", "-fno-omit-frame-pointer"],
}


def _sh(cmd):
    r = subprocess.run(cmd, capture_output=True, text=True)
    if r.returncode != 0:
        raise build.BuildError("command failed: %s\n%s" % (" ".join(cmd), r.stderr[-3000:]))
    return r.stdout


def _stamp_ok(path, tag):
    return os.path.exists(path) and os.path.exists(path + ".stamp") and open(path + ".stamp").read() == tag


def _write_stamp(path, tag):
    with open(path + ".stamp", "w") as f:
        f.write(tag)


def _hash_files(paths, extra=""):
    h = hashlib.sha1(extra.encode())
    for p in paths:
        with open(p, "rb") as f:
            h.update(f.read())
    return h.hexdigest()[:16]


def host(flavour):
    d = os.path.join(build.CACHE, "hosts")
    os.makedirs(d, exist_ok=True)
    exe = os.path.join(d, "host-" + flavour)
    src = os.path.join(NATIVE, "host.c")
    tag = _hash_files([src, os.path.abspath(__file__)], flavour)
    if not _stamp_ok(exe, tag):
        inc = _sh(["/usr/bin/python3.11-config", "--includes"]).split()
        ld = _sh(["/usr/bin/python3.11-config", "--ldflags", "--embed"]).split()
        _sh(["gcc", "-O1", "-g1"] + HOST_FLAGS[flavour] + inc + [src, "-o", exe] + ld + ["-rdynamic", "-Wl,--no-as-needed", "-lstdc++", "-Wl,--as-needed"])
        _write_stamp(exe, tag)
    return exe


def detsim_lib(flavour, bd):
    """libdetsim for this flavour, compiled against the tree's PyImathTask.h and linked to its libPyImath."""
    m = build.mirror_dir()
    inc = os.path.join(m, "src/python/PyImath")
    out = os.path.join(bd, "libdetsim.so")
    srcs = [os.path.join(NATIVE, f) for f in ("pool.cpp", "handoff.cpp", "handoff.h")]
    hdrs = [os.path.join(inc, f) for f in ("PyImathTask.h", "PyImathExport.h")]
    tag = _hash_files(srcs + hdrs, flavour)
    if not _stamp_ok(out, tag):
        pyimath = os.path.join(bd, "src/python/PyImath")
        libs = [f for f in os.listdir(pyimath) if f.startswith("libPyImath") and f.endswith(".so")]
        if not libs:
            raise build.BuildError("libPyImath not found in " + pyimath)
        libname = sorted(libs, key=len)[0][3:-3]
        ho = os.path.join(bd, "detsim_handoff.o")
        po = os.path.join(bd, "detsim_pool.o")
        # the hand-off is NEVER instrumented (see handoff.h)
        _sh(["g++", "-std=c++17", "-O2", "-fPIC", "-c", srcs[1], "-o", ho])
        _sh(["g++", "-std=c++17", "-g1", "-fPIC"] + LIB_FLAGS[flavour] + ["-I" + inc, "-I" + NATIVE, "-c", srcs[0], "-o", po])
        _sh(["g++", "-shared", "-o", out, po, ho] + [f for f in LIB_FLAGS[flavour] if f.startswith("-fsanitize")] +
            ["-L" + pyimath, "-l" + libname, "-Wl,-rpath," + pyimath, "-lpthread"])
        _write_stamp(out, tag)
    return out


def ensure_all():
    for fl in HOST_FLAGS:
        host(fl)


def host_env(flavour, bd):
    env = build.pyenv(bd)
    env["DETSIM_LIB"] = os.path.join(bd, "libdetsim.so")
    if flavour == "asan":
        env["PYTHONMALLOC"] = "malloc"
    env.pop("ASAN_OPTIONS", None)
    env.pop("TSAN_OPTIONS", None)
    return env
