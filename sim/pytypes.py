"""Type registry of the imath module for the Python-side simulators (C19, C20): for every scalar /
element / array type name that appears in boost.python signatures, how to generate a value from the
run PRNG, how to build it from plain numbers, and how to flatten it to plain numbers for bit-exact
comparison.  Imported inside the embedded interpreter (needs `imath`)."""
import struct

import imath

# base kinds --------------------------------------------------------------------------------------
INT_RANGE = {
    "b": (0, 1), "i8": (-128, 127), "u8": (0, 255), "i16": (-32768, 32767), "u16": (0, 65535),
    "i32": (-2 ** 31, 2 ** 31 - 1), "u32": (0, 2 ** 32 - 1), "i64": (-2 ** 62, 2 ** 62),  # constructors convert through double: +-2^63 overflows
}
F32_SPECIAL = [0.0, -0.0, 1.0, -1.0, float("inf"), float("-inf"), float("nan"), 1e-45, -1e-45,
               3.4028234663852886e+38, -3.4028234663852886e+38, 1.1754943508222875e-38, 0.5, 2.0, 1e-20, 1e20]
F64_SPECIAL = [0.0, -0.0, 1.0, -1.0, float("inf"), float("-inf"), float("nan"), 5e-324, -5e-324,
               1.7976931348623157e+308, -1.7976931348623157e+308, 2.2250738585072014e-308, 0.5, 2.0, 1e-200, 1e200]


def f32(x):
    return struct.unpack("f", struct.pack("f", x))[0]


def gen_base(rng, k, mode):
    """mode: 'bit' (specials, extremes), 'scaled' (small well-conditioned values), 'nz' (non-zero small ints
    / floats away from zero: safe divisors), 'unit' (values in [-1,1])"""
    if mode == "zeros":
        # ties and signed zeros: min/max/compare style operations must not depend on which equal operand wins
        if k in INT_RANGE:
            return rng.choice([0, 0, 1, 2]) if k != "b" else rng.below(2)
        return rng.choice([0.0, -0.0, 0.0, -0.0, 1.0, 2.0])
    if k in INT_RANGE:
        lo, hi = INT_RANGE[k]
        if k == "b":
            return rng.below(2)
        if mode == "nz":
            v = rng.range(1, min(hi, 100))
            if lo < 0 and rng.chance(0.4):
                v = -rng.range(2, min(-lo, 100))
            return v
        if mode == "bit" and rng.chance(0.3):
            return rng.choice([lo, hi, 0, 1, lo + 1, hi - 1, max(lo, -1)])
        if mode == "bit" and rng.chance(0.3):
            return rng.range(lo, hi)
        return rng.range(max(lo, -9), min(hi, 9))
    if k == "f32":
        if mode == "bit":
            if rng.chance(0.5):
                return rng.choice(F32_SPECIAL)
            bits = rng.below(1 << 32)
            return struct.unpack("f", struct.pack("I", bits))[0]
        if mode == "nz":
            v = rng.range(1, 256) / 64.0
            return -v if rng.chance(0.4) else v
        if mode == "unit":
            return rng.range(-64, 64) / 64.0
        return rng.range(-256, 256) / 64.0
    if k == "f64":
        if mode == "bit":
            if rng.chance(0.5):
                return rng.choice(F64_SPECIAL)
            bits = rng.below(1 << 64)
            return struct.unpack("d", struct.pack("Q", bits))[0]
        if mode == "nz":
            v = rng.range(1, 1024) / 256.0
            return -v if rng.chance(0.4) else v
        if mode == "unit":
            return rng.range(-256, 256) / 256.0
        return rng.range(-1024, 1024) / 256.0
    raise KeyError(k)


# Sign and payload of a NaN *result* are not specified by IEEE-754 and depend on operand order / instruction
# selection (the vectorised body of a loop and its scalar epilogue may differ): every comparison treats all NaNs
# alike.  Everything else (signed zeros, infinities, denormals, every finite bit) is compared bit-wise.
_NAN = float("nan")


class T:
    """One element/scalar type."""
    __slots__ = ("name", "base", "n", "make", "flat", "isfloat", "cls", "gen")

    def __init__(self, name, base, n, make, flat, gen=None):
        self.name, self.base, self.n, self.make, self.flat = name, base, n, make, flat
        self.isfloat = base in ("f32", "f64")
        self.cls = getattr(imath, name, None)
        self.gen = gen

    def generate(self, rng, mode):
        if self.gen:
            return self.gen(self, rng, mode)
        return self.make([gen_base(rng, self.base, mode) for _ in range(self.n)])

    def pack(self, obj):
        """bit-exact, hashable representation"""
        vals = self.flat(obj)
        if self.isfloat:
            return struct.pack("<%dd" % len(vals), *[_NAN if v != v else v for v in vals])
        return tuple(int(v) for v in vals)


TYPES = {}
SUFFIX = {"c": "u8", "s": "i16", "i": "i32", "i64": "i64", "f": "f32", "d": "f64"}


def _reg(t):
    TYPES[t.name] = t
    return t


def _ident(v):
    return v[0]


# python scalars (boost signature names)
_reg(T("int", "i32", 1, _ident, lambda o: [o]))
_reg(T("bool", "b", 1, lambda v: bool(v[0]), lambda o: [int(o)]))
_reg(T("float", "f64", 1, _ident, lambda o: [o]))
# pseudo element types of the basic arrays
for nm, b in (("_b", "b"), ("_i8", "i8"), ("_u8", "u8"), ("_i16", "i16"), ("_u16", "u16"), ("_i32", "i32"),
              ("_u32", "u32"), ("_f32", "f32"), ("_f64", "f64")):
    _reg(T(nm, b, 1, (lambda v: bool(v[0])) if b == "b" else _ident, lambda o: [o]))

for dim, comps in ((2, "xy"), (3, "xyz"), (4, "xyzw")):
    for suf, base in SUFFIX.items():
        name = "V%d%s" % (dim, suf)
        cls = getattr(imath, name, None)
        if cls is None:
            continue

        def vmake(v, cls=cls, comps=comps):
            try:
                return cls(*v)
            except OverflowError:
                # the float vector constructors convert through a range-checked double: infinities are set per component
                o = cls()
                for c, x in zip(comps, v):
                    setattr(o, c, x)
                return o

        _reg(T(name, base, dim, vmake, (lambda o, comps=comps: [getattr(o, c) for c in comps])))

for name, base, comps in (("Color3c", "u8", "xyz"), ("Color3f", "f32", "xyz"), ("Color4c", "u8", "rgba"), ("Color4f", "f32", "rgba")):
    cls = getattr(imath, name)
    _reg(T(name, base, len(comps), (lambda v, cls=cls: cls(*v)), (lambda o, comps=comps: [getattr(o, c) for c in comps])))


def _quat_flat(q):
    v = q.v()
    return [q.r(), v.x, v.y, v.z]


for suf, base in (("f", "f32"), ("d", "f64")):
    cls = getattr(imath, "Quat" + suf)
    _reg(T("Quat" + suf, base, 4, (lambda v, cls=cls: cls(*v)), _quat_flat))
    for d in (2, 3, 4):
        cls = getattr(imath, "M%d%d%s" % (d, d, suf))

        def mgen(t, rng, mode, d=d):
            # mostly well-conditioned (identity + noise), sometimes arbitrary / singular
            if mode in ("bit", "zeros") or rng.chance(0.15):
                vals = [gen_base(rng, t.base, mode) for _ in range(d * d)]
                if rng.chance(0.3):
                    vals[0:d] = vals[d:2 * d] if d > 1 else vals[0:d]
                return t.make(vals)
            vals = [(2.0 if i // d == i % d else 0.0) + gen_base(rng, t.base, "unit") * 0.5 for i in range(d * d)]
            return t.make(vals)

        _reg(T("M%d%d%s" % (d, d, suf), base, d * d, (lambda v, cls=cls: cls(*v)),
               (lambda o, d=d: [o[i][j] for i in range(d) for j in range(d)]), gen=mgen))
    ecls = getattr(imath, "Euler" + suf)
    ORDERS = [getattr(imath, n) for n in sorted(dir(imath)) if n.startswith("EULER_") and not n.endswith("Layout")
              and n not in ("EULER_X_AXIS", "EULER_Y_AXIS", "EULER_Z_AXIS")]
    ORDERS = [o for o in ORDERS if type(o).__name__ == "Order"]

    def egen(t, rng, mode, ecls=ecls, ORDERS=ORDERS):
        vals = [gen_base(rng, t.base, mode) for _ in range(3)]
        return ecls(vals[0], vals[1], vals[2], ORDERS[rng.below(len(ORDERS))])

    OIDX = {int(o): k for k, o in enumerate(ORDERS)}
    _reg(T("Euler" + suf, base, 4, (lambda v, ecls=ecls, ORDERS=ORDERS: ecls(v[0], v[1], v[2], ORDERS[int(v[3]) % len(ORDERS)])),
           (lambda o, OIDX=OIDX: [o.x, o.y, o.z, float(OIDX.get(int(o.order()), -1))]), gen=egen))

for dim in (2, 3):
    for suf, base in SUFFIX.items():
        if suf == "c":
            continue
        name = "Box%d%s" % (dim, suf)
        cls = getattr(imath, name, None)
        vt = TYPES.get("V%d%s" % (dim, suf))
        if cls is None or vt is None:
            continue

        def bgen(t, rng, mode, cls=cls, vt=vt, dim=dim):
            if rng.chance(0.1):
                return cls()  # empty box
            a = [gen_base(rng, t.base, mode) for _ in range(dim)]
            b = [gen_base(rng, t.base, mode) for _ in range(dim)]
            if mode != "bit":
                a, b = [min(x, y) for x, y in zip(a, b)], [max(x, y) for x, y in zip(a, b)]
            return cls(vt.make(a), vt.make(b))

        _reg(T(name, base, 2 * dim, (lambda v, cls=cls, vt=vt, dim=dim: cls(vt.make(v[:dim]), vt.make(v[dim:]))),
               (lambda o, vt=vt: vt.flat(o.min()) + vt.flat(o.max())), gen=bgen))

# FrustumTest: an opaque owner (no accessors): generated from a frustum and a camera transform, no state to compare
for suf, base in (("f", "f32"), ("d", "f64")):
    ftc, fc, mt = getattr(imath, "FrustumTest" + suf, None), getattr(imath, "Frustum" + suf, None), TYPES.get("M44" + suf)
    if ftc is None or fc is None or mt is None:
        continue

    def ftgen(t, rng, mode, ftc=ftc, fc=fc, mt=mt):
        near = 0.5 + rng.range(0, 8) / 4.0
        far = near + 1.0 + rng.range(0, 400) / 4.0
        w, h = 0.25 + rng.range(0, 16) / 8.0, 0.25 + rng.range(0, 16) / 8.0
        fr = fc(near, far, -w, w, h, -h, bool(rng.below(2)))
        vals = [(1.0 if i // 4 == i % 4 else 0.0) for i in range(16)]
        vals[12], vals[13], vals[14] = rng.range(-8, 8) / 2.0, rng.range(-8, 8) / 2.0, rng.range(-8, 8) / 2.0
        return ftc(fr, mt.make(vals))

    _reg(T("FrustumTest" + suf, base, 0, (lambda v: None), (lambda o: []), gen=ftgen))

# array types ---------------------------------------------------------------------------------------
ARRAYS = {}   # array type name -> element T
for an, en in (("BoolArray", "_b"), ("SignedCharArray", "_i8"), ("UnsignedCharArray", "_u8"), ("ShortArray", "_i16"),
               ("UnsignedShortArray", "_u16"), ("IntArray", "_i32"), ("UnsignedIntArray", "_u32"),
               ("FloatArray", "_f32"), ("DoubleArray", "_f64"), ("C3cArray", "Color3c"), ("C3fArray", "Color3f"),
               ("C4cArray", "Color4c"), ("C4fArray", "Color4f")):
    if hasattr(imath, an):
        ARRAYS[an] = TYPES[en]
for name, t in list(TYPES.items()):
    an = name + "Array"
    if hasattr(imath, an) and an not in ARRAYS and not name.startswith("_"):
        ARRAYS[an] = t


def is_array(tn):
    return tn in ARRAYS


def make_array(tn, elems):
    a = getattr(imath, tn)(len(elems))
    for i, e in enumerate(elems):
        a[i] = e
    return a


def gen_elems(tn, n, rng, mode):
    t = ARRAYS[tn]
    return [t.generate(rng, mode) for _ in range(n)]


def pack_array(tn, a):
    """bit-exact representation of all elements the handle selects"""
    t = ARRAYS[tn]
    n = len(a)
    if t.isfloat:
        vals = []
        fl = t.flat
        for i in range(n):
            vals.extend(fl(a[i]))
        return struct.pack("<%dd" % len(vals), *[_NAN if v != v else v for v in vals])
    out = []
    fl = t.flat
    for i in range(n):
        out.extend(int(v) for v in fl(a[i]))
    return tuple(out)


def canon_nan(vals):
    """all NaNs alike (sign and payload of a NaN legitimately differ between two differently compiled paths)"""
    return [float("nan") if v != v else v for v in vals]


def pack_value(tn, v):
    """pack a value of signature type tn (array, registered scalar, or python scalar)"""
    if tn in ARRAYS:
        return ("A", len(v), pack_array(tn, v))
    if tn in TYPES:
        return ("S", TYPES[tn].pack(v))
    return ("R", repr(v))


def typename(obj):
    return type(obj).__name__
