"""Fleet of embedded-interpreter workers (C19, C20): batches of seeds, death classification,
single fresh-process executions for gating / minimisation / replay."""
import json
import os
import re
import subprocess
import tempfile

from . import build, common, hosts

SUMMARY = re.compile(r"SUMMARY: (ThreadSanitizer|AddressSanitizer): ([\w\- ]+?)(?: \S+:\d+)? in (.+)")
SUMMARY2 = re.compile(r"SUMMARY: (ThreadSanitizer|AddressSanitizer): ([\w\- ]+)")


def prepare(flavour):
    """build flavour from /repo's working tree + host + native lib; returns (host exe, env, build dir)"""
    bd = build.ensure(flavour)
    exe = hosts.host(flavour)
    hosts.detsim_lib(flavour, bd)
    return exe, hosts.host_env(flavour, bd), bd


def classify_death(rc, err):
    """(class, fragment, detail) for a worker that died"""
    m = SUMMARY.search(err) or SUMMARY2.search(err)
    if rc == 77 or m:
        if m:
            tool, kind = m.group(1), m.group(2).strip().replace(" ", "-")
            cls = "race" if tool == "ThreadSanitizer" else "memory"
            where = ""
            mm = re.search(r"#0 (\S+?)[\(<]", err)
            if len(m.groups()) >= 3:
                where = m.group(3)[:160]
            return cls, kind, "%s: %s %s" % (tool, kind, where)
        return "memory", "sanitizer-exit-77", err[-300:]
    if "terminate called" in err or "std::terminate" in err:
        mm = re.search(r"what\(\):\s*(.*)", err)
        return "crash", "terminate", "std::terminate: " + (mm.group(1)[:200] if mm else "")
    if rc < 0:
        return "crash", "signal-%d" % (-rc), "killed by signal %d" % (-rc)
    mm = re.search(r"(\w+Error[^\n]*)\s*$", err.strip())
    return "harness", "worker-exit-%d" % rc, (mm.group(1) if mm else err[-300:])


class HostBatch:
    """runs seeds [0, nruns) of `base` through `driver --batch` in K persistent hosts"""

    def __init__(self, flavour, driver, base, nruns, workers, chunk, exe, env, extra_args=()):
        self.flavour, self.driver, self.base, self.nruns, self.workers, self.chunk = flavour, driver, base, nruns, workers, chunk
        self.exe, self.env = exe, env
        self.extra_args = list(extra_args)
        self.agg = {}
        self.sched = set()
        self.tasks = set()
        self.entries = {}
        self.extra = {}          # driver-specific aggregated sets/counters
        self.chunk_hash = {}     # lo -> list of per-run hashes joined
        self.run_hash = {}       # idx -> hash (only kept when keep_run_hashes)
        self.keep_run_hashes = False
        self.viol = []           # dict(idx, seed, cls, signature, detail, label)
        self.harness = []
        self.cur = {}            # task -> (idx, seed, label) currently in flight
        self.ended = {}          # task -> set of idx ended
        self.deaths = 0

    def on_line(self, task, line):
        if line.startswith("BEGIN "):
            _, idx, seed, label = line.split(" ", 3)
            self.cur[task] = (int(idx), int(seed), label)
        elif line.startswith("END "):
            _, idx, verdict, rest = line.split(" ", 3)
            idx = int(idx)
            self.ended.setdefault(task, set()).add(idx)
            c = self.cur.get(task)
            if verdict == "ok":
                if self.keep_run_hashes:
                    self.run_hash[idx] = rest
            elif verdict == "violation":
                d = json.loads(rest)
                self.viol.append({"idx": idx, "seed": c[1] if c else 0, "cls": d["signature"].split("/")[0], "signature": d["signature"],
                                  "detail": d["detail"], "label": c[2] if c else ""})
            else:
                self.harness.append((idx, verdict, rest))
            self.cur.pop(task, None)
        elif line.startswith("STATS "):
            _, lo, js = line.split(" ", 2)
            d = json.loads(js)
            for k, v in d["agg"].items():
                self.agg[k] = self.agg.get(k, 0) + v
            self.sched.update(d.get("sched", []))
            self.tasks.update(d.get("tasks", []))
            for k, v in d.get("entries", {}).items():
                self.entries[k] = self.entries.get(k, 0) + v
            for k, v in d.get("sets", {}).items():
                self.extra.setdefault(k, set()).update(v)
            self.chunk_hash.setdefault(int(lo), []).append(d["hash"])

    def on_death(self, task, lines, rc, err):
        self.deaths += 1
        base, lo, hi = [int(x) for x in task.split()[:3]]
        c = self.cur.pop(task, None)
        if c is None:
            # died outside a run (start-up, between runs): harness problem
            self.harness.append((lo, "worker-died-outside-run rc=%d" % rc, err[-400:]))
            return []
        idx, seed, label = c
        cls, frag, detail = classify_death(rc, err)
        if cls == "harness":
            self.harness.append((idx, frag, detail))
        else:
            self.viol.append({"idx": idx, "seed": seed, "cls": cls, "signature": "%s/%s/%s" % (cls, frag, label), "detail": detail,
                              "label": label, "stderr": err[-3000:]})
        follow = []
        if idx + 1 < hi:
            follow.append("%d %d %d" % (base, idx + 1, hi))
        return follow

    def run(self):
        errdir = os.path.join(build.CACHE, "werr-%s-%d" % (self.flavour, os.getpid()))
        fl = common.Fleet([self.exe, self.driver, "--batch"] + self.extra_args, self.env, self.workers, self.on_line, self.on_death,
                          stderr_dir=errdir, task_timeout=900)
        for lo in range(0, self.nruns, self.chunk):
            fl.submit("%d %d %d" % (self.base, lo, min(lo + self.chunk, self.nruns)))
        fl.run()
        fl.close()
        subprocess.run(["rm", "-rf", errdir])
        return self


def run_single(exe, env, driver, args, timeout=300, stdin_text=None):
    """one fresh process; returns (rc, stdout, stderr)"""
    try:
        r = subprocess.run([exe, driver] + list(args), env=env, capture_output=True, text=True, timeout=timeout, input=stdin_text,
                           errors="replace")
        return r.returncode, r.stdout, r.stderr
    except subprocess.TimeoutExpired as e:
        return -999, (e.stdout or b"").decode(errors="replace") if isinstance(e.stdout, bytes) else (e.stdout or ""), "TIMEOUT"


def run_plan_doc(exe, env, driver, doc, timeout=300):
    """execute a plan document {plan, schedule?} in a fresh process -> (verdict, signature, detail, trace)"""
    fd, path = tempfile.mkstemp(prefix="plan-", suffix=".json", dir=build.CACHE)
    with os.fdopen(fd, "w") as f:
        json.dump(doc, f)
    try:
        rc, out, err = run_single(exe, env, driver, ["--plan", path], timeout)
    finally:
        os.unlink(path)
    label = ""
    for line in out.split("\n"):
        if line.startswith("BEGIN "):
            label = line.split(" ", 3)[3]
        if line.startswith("RESULT "):
            d = json.loads(line[7:])
            return d["verdict"], d.get("signature"), d.get("detail"), d.get("trace"), d.get("hash")
    cls, frag, detail = classify_death(rc, err)
    if cls == "harness":
        return "harness", "harness/%s" % frag, detail, None, None
    return "violation", "%s/%s/%s" % (cls, frag, label), detail, None, None
