/* Embedding host: the sanitizer runtime is linked into this executable, so an instrumented imath.so /
 * libPyImath.so can be loaded by an uninstrumented CPython without LD_PRELOAD.  Built three ways:
 * plain, -fsanitize=address, -fsanitize=thread. */
#include <Python.h>

#if defined(HOST_ASAN)
__attribute__((used, visibility("default"))) const char* __asan_default_options(void)
{
    return "exitcode=77:detect_leaks=0:halt_on_error=1:abort_on_error=0:allocator_may_return_null=1:"
           "detect_stack_use_after_return=0:handle_segv=1:handle_abort=0:print_summary=1:symbolize=1";
}
#endif
#if defined(HOST_TSAN)
__attribute__((used, visibility("default"))) const char* __tsan_default_options(void)
{
    return "exitcode=77:halt_on_error=1:report_signal_unsafe=0:second_deadlock_stack=0:history_size=4:"
           "print_summary=1:symbolize=1";
}
#endif

int main(int argc, char** argv)
{
    return Py_BytesMain(argc, argv);
}
