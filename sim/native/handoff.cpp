#include "handoff.h"

#include <atomic>
#include <climits>
#include <linux/futex.h>
#include <sys/syscall.h>
#include <unistd.h>

namespace
{
struct alignas (64) Slot
{
    std::atomic<int> go{0};
    std::atomic<int> done{0};
    HoJob            job;
    void*            exc = nullptr;
};
Slot slots[64];

void fwait (std::atomic<int>* a)
{
    while (a->load (std::memory_order_acquire) == 0)
        syscall (SYS_futex, reinterpret_cast<int*> (a), FUTEX_WAIT_PRIVATE, 0, nullptr, nullptr, 0);
    a->store (0, std::memory_order_relaxed);
}
void fpost (std::atomic<int>* a)
{
    a->store (1, std::memory_order_release);
    syscall (SYS_futex, reinterpret_cast<int*> (a), FUTEX_WAKE_PRIVATE, INT_MAX, nullptr, nullptr, 0);
}
} // namespace

extern "C" {
void ho_init (int) {}
void ho_put_job (int w, const HoJob* job)
{
    slots[w].job = *job;
    fpost (&slots[w].go);
}
void ho_get_job (int w, HoJob* job)
{
    fwait (&slots[w].go);
    *job = slots[w].job;
}
void ho_job_done (int w, void* exc)
{
    slots[w].exc = exc;
    fpost (&slots[w].done);
}
void* ho_wait_done (int w)
{
    fwait (&slots[w].done);
    return slots[w].exc;
}
}
