// Park/release hand-off between the dispatcher and the parked worker threads.
// This translation unit is ALWAYS compiled without -fsanitize=thread: ThreadSanitizer neither
// instruments nor intercepts anything in it (std::atomic on plain memory + raw futex syscalls), so it
// learns of no happens-before edge between two steps that run on different worker threads, although
// in reality they run strictly one at a time in the seeded order.  (DESIGN.md section 3.2)
#pragma once
#include <cstddef>
#include <cstdint>

extern "C" {
struct HoJob
{
    void*    task;
    uint64_t start, end;
    int      tid;
    int      kind;      // 0 = run step, 1 = exit thread
    int      first;     // first step of this worker in this dispatch (acquire edge wanted)
    int      last;      // last step of this worker in this dispatch (release edge wanted)
    void*    exc;       // out: captured exception (std::exception_ptr*) or null
};
void ho_init (int nworkers);
void ho_put_job (int worker, const HoJob* job);   // dispatcher: hand a job to a parked worker, wake it
void ho_get_job (int worker, HoJob* job);         // worker: park until a job arrives
void ho_job_done (int worker, void* exc);         // worker: signal completion
void* ho_wait_done (int worker);                  // dispatcher: park until the worker is done; returns exc
}
