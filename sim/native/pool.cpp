// SimWorkerPool: a simulated PyImath::WorkerPool installed through the existing seam
// PyImath::WorkerPool::setCurrentPool.  Every partition, order, tid and thread is decided by the
// seeded configuration (or by an explicit schedule on replay); sub-ranges run on real OS threads that
// are parked and released one at a time.  See DESIGN.md section 3.
//
// Compiled with the flavour's flags (so with -fsanitize=thread in the tsan flavour, where the
// __tsan_release/__tsan_acquire calls below add exactly the happens-before edges a real pool
// guarantees: dispatcher -> first step of each worker, last step of each worker -> dispatch return).

#include "handoff.h"

#include <PyImathTask.h>

#include <cstdio>
#include <cstdlib>
#include <cstring>
#include <cxxabi.h>
#include <exception>
#include <pthread.h>
#include <string>
#include <typeinfo>
#include <vector>

#if defined(__SANITIZE_THREAD__)
extern "C" void __tsan_acquire (void* addr);
extern "C" void __tsan_release (void* addr);
#define TSAN_ACQUIRE(a) __tsan_acquire (a)
#define TSAN_RELEASE(a) __tsan_release (a)
#else
#define TSAN_ACQUIRE(a) ((void) 0)
#define TSAN_RELEASE(a) ((void) 0)
#endif

namespace
{
const int MAXW = 16;

struct Rng
{
    uint64_t s[4];
    static uint64_t splitmix64 (uint64_t& x)
    {
        x += 0x9E3779B97F4A7C15ULL;
        uint64_t z = x;
        z = (z ^ (z >> 30)) * 0xBF58476D1CE4E5B9ULL;
        z = (z ^ (z >> 27)) * 0x94D049BB133111EBULL;
        return z ^ (z >> 31);
    }
    explicit Rng (uint64_t seed) { uint64_t x = seed; for (int i = 0; i < 4; i++) s[i] = splitmix64 (x); }
    static uint64_t rotl (uint64_t v, int k) { return (v << k) | (v >> (64 - k)); }
    uint64_t next ()
    {
        uint64_t r = rotl (s[1] * 5, 7) * 9, t = s[1] << 17;
        s[2] ^= s[0]; s[3] ^= s[1]; s[1] ^= s[2]; s[0] ^= s[3]; s[2] ^= t; s[3] = rotl (s[3], 45);
        return r;
    }
    uint64_t below (uint64_t n) { return n ? next () % n : 0; }
    bool chance (double p) { return double (next () >> 11) * (1.0 / 9007199254740992.0) < p; }
};

struct StepRec { uint64_t start, end; int tid; };
struct DispatchRec
{
    std::string          task;
    uint64_t             len = 0;
    int                  W = 0;
    int                  flags = 0; // 1 inline fallback, 2 exception in worker, 4 remaining steps cancelled, 8 explicit schedule, 16 explicit mismatch
    std::vector<StepRec> steps;
};

struct Config
{
    int      W = 4, part = 1, assign = 0, order = 0;
    double   emptyProb = 0;
    uint64_t seed = 1;
    int      inlineFallback = 0;     // this dispatch number (or -1 = all, 0 = none; n>0 = every n-th)
    int      cancelAfterException = 0;
};

Config                          g_cfg;
std::vector<DispatchRec>        g_trace;
std::vector<std::vector<StepRec>> g_explicit;   // explicit schedules, consumed in dispatch order
std::vector<int>                g_explicitW;
size_t                          g_explicitPos = 0;
bool                            g_useExplicit = false;
int                             g_contractViolations = 0;
int                             g_nestedDispatch = 0;
uint64_t                        g_dispatchCount = 0;
std::string                     g_json;

thread_local bool tl_inWorker = false;
pthread_t         g_threads[MAXW];
int               g_nthreads = 0;
char              g_dispatchSync;          // addresses used as TSan sync objects
char              g_workerSync[MAXW];

void* workerMain (void* arg)
{
    int k = int (reinterpret_cast<intptr_t> (arg));
    for (;;)
    {
        HoJob j;
        ho_get_job (k, &j);
        if (j.kind == 1) break;
        if (j.first) TSAN_ACQUIRE (&g_dispatchSync);
        std::exception_ptr* e = nullptr;
        tl_inWorker           = true;
        try
        {
            static_cast<PyImath::Task*> (j.task)->execute (size_t (j.start), size_t (j.end), j.tid);
        }
        catch (...)
        {
            e = new std::exception_ptr (std::current_exception ());
        }
        tl_inWorker = false;
        if (j.last) TSAN_RELEASE (&g_workerSync[k]);
        ho_job_done (k, e);
    }
    return nullptr;
}

void ensureThreads (int w)
{
    while (g_nthreads < w)
    {
        pthread_create (&g_threads[g_nthreads], nullptr, workerMain, reinterpret_cast<void*> (intptr_t (g_nthreads)));
        g_nthreads++;
    }
}

std::string demangle (const char* n)
{
    int   st = 0;
    char* d  = abi::__cxa_demangle (n, nullptr, nullptr, &st);
    std::string r = (st == 0 && d) ? d : n;
    free (d);
    return r;
}

// ---- schedule generation -----------------------------------------------------------------------
void makeSchedule (uint64_t len, const Config& c, uint64_t dispatchNo, std::vector<StepRec>& out)
{
    Rng r (c.seed ^ (0x9E3779B97F4A7C15ULL * (dispatchNo + 1)));
    int W = c.W;
    std::vector<uint64_t> cuts; // chunk boundaries, ascending, cuts[0]=0, cuts.back()=len
    cuts.push_back (0);
    auto finish = [&] () { if (cuts.back () != len) cuts.push_back (len); };
    switch (c.part)
    {
        case 0: break;
        case 1:
            for (int i = 1; i < W; i++) { uint64_t x = len * i / W; if (x > cuts.back ()) cuts.push_back (x); }
            break;
        case 2:
        {
            uint64_t g = (len + 599) / 600;
            for (uint64_t x = g; x < len; x += g) cuts.push_back (x);
            break;
        }
        case 3:
        {
            int k = 1 + int (r.below (12));
            std::vector<uint64_t> p;
            for (int i = 0; i < k; i++) p.push_back (1 + r.below (len - 1));
            for (size_t i = 0; i < p.size (); i++) for (size_t j = i + 1; j < p.size (); j++) if (p[j] < p[i]) std::swap (p[i], p[j]);
            for (auto x : p) if (x > cuts.back () && x < len) cuts.push_back (x);
            break;
        }
        case 4:
        {
            uint64_t sz = 1 + r.below (3), x = 0;
            bool fromEnd = r.chance (0.5);
            std::vector<uint64_t> sizes;
            while (x < len) { uint64_t s = sz < len - x ? sz : len - x; sizes.push_back (s); x += s; sz *= 2; }
            if (fromEnd) for (size_t i = 0, j = sizes.size () - 1; i < j; i++, j--) std::swap (sizes[i], sizes[j]);
            x = 0;
            for (size_t i = 0; i + 1 < sizes.size (); i++) { x += sizes[i]; cuts.push_back (x); }
            break;
        }
        case 5:
        {
            int tiny = 1 + int (r.below (10));
            if (uint64_t (tiny) >= len) tiny = int (len) - 1;
            if (r.chance (0.5)) for (int i = 1; i <= tiny; i++) cuts.push_back (uint64_t (i));
            else for (int i = tiny; i >= 1; i--) cuts.push_back (len - uint64_t (i));
            break;
        }
        case 6:
        {
            uint64_t g = 1 + r.below (64);
            if ((len + g - 1) / g > 600) g = (len + 599) / 600;
            for (uint64_t x = g; x < len; x += g) cuts.push_back (x);
            break;
        }
        default:
        {
            uint64_t x = 1 + r.below (len - 1);
            cuts.push_back (x);
            break;
        }
    }
    finish ();
    std::vector<StepRec> chunks;
    for (size_t i = 0; i + 1 < cuts.size (); i++)
    {
        if (c.emptyProb > 0 && r.chance (c.emptyProb)) chunks.push_back ({cuts[i], cuts[i], 0});
        chunks.push_back ({cuts[i], cuts[i + 1], 0});
    }
    if (c.emptyProb > 0 && r.chance (c.emptyProb)) chunks.push_back ({len, len, 0});
    size_t n = chunks.size ();
    // assignment of chunks to tids (and thereby threads)
    int oneTid = int (r.below (W));
    for (size_t i = 0; i < n; i++)
    {
        int t;
        switch (c.assign)
        {
            case 0: t = int (i % W); break;
            case 1: t = int (r.below (W)); break;
            case 2: t = oneTid; break;
            case 3: t = int (i * W / n); break;
            case 4: t = int ((n - 1 - i) % W); break;
            default: t = W - 1 - int (i % W); break;
        }
        chunks[i].tid = t;
    }
    // execution order
    std::vector<size_t> ord (n);
    for (size_t i = 0; i < n; i++) ord[i] = i;
    switch (c.order)
    {
        case 0: break;
        case 1: for (size_t i = 0; i < n / 2; i++) std::swap (ord[i], ord[n - 1 - i]); break;
        case 2: for (size_t i = n; i > 1; i--) std::swap (ord[i - 1], ord[r.below (i)]); break;
        case 3:
        {
            // round-robin over threads: one step of each tid in turn
            std::vector<std::vector<size_t>> per (W);
            for (size_t i = 0; i < n; i++) per[chunks[i].tid].push_back (i);
            ord.clear ();
            for (size_t k = 0; ord.size () < n; k++)
                for (int t = 0; t < W; t++) if (k < per[t].size ()) ord.push_back (per[t][k]);
            break;
        }
        case 4: if (n > 1) { ord.erase (ord.begin ()); ord.push_back (0); } break;
        default:
        {
            size_t i = 0;
            while (i < n)
            {
                size_t b = 1 + r.below (5);
                if (i + b > n) b = n - i;
                for (size_t a = 0; a < b / 2; a++) std::swap (ord[i + a], ord[i + b - 1 - a]);
                i += b;
            }
            break;
        }
    }
    out.clear ();
    for (size_t i = 0; i < n; i++) out.push_back (chunks[ord[i]]);
}

// the legal-schedule contract the simulator must itself respect (self-check, DESIGN 3.1)
bool scheduleLegal (const std::vector<StepRec>& steps, uint64_t len, int W)
{
    std::vector<unsigned char> cover (len, 0);
    for (auto& s : steps)
    {
        if (s.start > s.end || s.end > len || s.tid < 0 || s.tid >= W) return false;
        for (uint64_t i = s.start; i < s.end; i++) { if (cover[i]) return false; cover[i] = 1; }
    }
    for (uint64_t i = 0; i < len; i++) if (!cover[i]) return false;
    return true;
}

void appendJson (std::string& o, const DispatchRec& d);

// single-run mode (gating, minimisation, replay): every schedule is written out *before* it is executed,
// so that the schedule of a run that dies under a sanitizer is still known
void logDispatch (const DispatchRec& rec)
{
    static const char* path = getenv ("DETSIM_TRACE_FILE");
    if (!path || !*path) return;
    FILE* f = fopen (path, "a");
    if (!f) return;
    std::string js;
    appendJson (js, rec);
    fprintf (f, "%s\n", js.c_str ());
    fclose (f);
}

struct SimPool : PyImath::WorkerPool
{
    size_t workers () const override { return size_t (currentW ()); }
    bool   inWorkerThread () const override { return tl_inWorker; }

    static int currentW ()
    {
        if (g_useExplicit && g_explicitPos < g_explicitW.size ()) return g_explicitW[g_explicitPos];
        return g_cfg.W;
    }

    void dispatch (PyImath::Task& task, size_t length) override
    {
        if (tl_inWorker) g_nestedDispatch++;
        DispatchRec rec;
        rec.task = demangle (typeid (task).name ());
        rec.len  = length;
        rec.W    = currentW ();
        uint64_t no = g_dispatchCount++;
        bool inl = g_cfg.inlineFallback == -1 || (g_cfg.inlineFallback > 0 && (no % uint64_t (g_cfg.inlineFallback)) == 0);
        if (g_useExplicit)
        {
            inl = false;
            rec.flags |= 8;
            if (g_explicitPos < g_explicit.size () && scheduleLegal (g_explicit[g_explicitPos], length, rec.W))
                rec.steps = g_explicit[g_explicitPos];
            else
            {
                rec.flags |= 16;
                rec.steps.push_back ({0, length, 0});
            }
            g_explicitPos++;
        }
        else if (inl)
        {
            rec.flags |= 1;
            rec.steps.push_back ({0, length, 0});
        }
        else
        {
            makeSchedule (length, g_cfg, no, rec.steps);
            if (!scheduleLegal (rec.steps, length, rec.W)) { g_contractViolations++; rec.steps.clear (); rec.steps.push_back ({0, length, 0}); }
        }
        logDispatch (rec);
        if (rec.flags & 1)
        {
            // a pool is allowed to run the whole range itself on the calling thread
            g_trace.push_back (rec);
            task.execute (0, length, 0);
            return;
        }
        ensureThreads (rec.W);
        // which step is the first / last of each worker in this dispatch
        std::vector<int> firstOf (MAXW, -1), lastOf (MAXW, -1);
        for (size_t i = 0; i < rec.steps.size (); i++)
        {
            int t = rec.steps[i].tid;
            if (firstOf[t] < 0) firstOf[t] = int (i);
            lastOf[t] = int (i);
        }
        std::exception_ptr firstExc;
        bool               cancelled = false;
        TSAN_RELEASE (&g_dispatchSync);
        std::vector<StepRec> executed;
        for (size_t i = 0; i < rec.steps.size (); i++)
        {
            const StepRec& s = rec.steps[i];
            if (cancelled)
            {
                // a cancelled worker still synchronises with the dispatcher when it is joined
                continue;
            }
            HoJob j;
            j.task = &task; j.start = s.start; j.end = s.end; j.tid = s.tid; j.kind = 0;
            j.first = firstOf[s.tid] == int (i);
            j.last  = 1; // release after every step: harmless (only the dispatcher acquires) and robust to cancellation
            j.exc   = nullptr;
            ho_put_job (s.tid, &j);
            void* e = ho_wait_done (s.tid);
            executed.push_back (s);
            if (e)
            {
                // the exception object travels from the worker to the dispatcher: a real pool synchronises that
                TSAN_ACQUIRE (&g_workerSync[s.tid]);
                std::exception_ptr* ep = static_cast<std::exception_ptr*> (e);
                if (!firstExc) firstExc = *ep;
                delete ep;
                rec.flags |= 2;
                if (g_cfg.cancelAfterException) { cancelled = true; rec.flags |= 4; }
            }
        }
        for (int t = 0; t < MAXW; t++) if (firstOf[t] >= 0) TSAN_ACQUIRE (&g_workerSync[t]);
        if (cancelled) rec.steps = executed;
        g_trace.push_back (rec);
        if (firstExc) std::rethrow_exception (firstExc);
    }
};

SimPool g_pool;

void appendJson (std::string& o, const DispatchRec& d)
{
    char b[128];
    o += "{\"task\":\"";
    for (char ch : d.task) { if (ch == '"' || ch == '\\') o += '\\'; o += ch; }
    snprintf (b, sizeof b, "\",\"len\":%llu,\"W\":%d,\"flags\":%d,\"steps\":[", (unsigned long long) d.len, d.W, d.flags);
    o += b;
    for (size_t i = 0; i < d.steps.size (); i++)
    {
        snprintf (b, sizeof b, "%s[%llu,%llu,%d]", i ? "," : "", (unsigned long long) d.steps[i].start, (unsigned long long) d.steps[i].end, d.steps[i].tid);
        o += b;
    }
    o += "]}";
}
} // namespace

// test hook of the harness itself (tools/tsan_probe): two steps on two workers that both write one
// global without synchronisation -> the blinded hand-off must let TSan report it
struct RaceProbe : PyImath::Task
{
    static long shared;
    void execute (size_t s, size_t e) override { for (size_t i = s; i < e; i++) shared += long (i); }
};
long RaceProbe::shared = 0;

extern "C" {

// install (1) / remove (0) the simulated pool
__attribute__ ((visibility ("default"))) void detsim_install (int on)
{
    // Persistent workers, created outside any dispatch: like the threads of a real pool they carry the process's
    // default per-thread state (floating-point control word, thread-locals), not whatever the dispatching thread
    // happens to have set while it is inside dispatchTask.
    if (on) ensureThreads (MAXW);
    PyImath::WorkerPool::setCurrentPool (on ? &g_pool : nullptr);
}

__attribute__ ((visibility ("default"))) void detsim_configure (int W, int part, int assign, int order, double emptyProb,
                                                                unsigned long long seed, int inlineFallback, int cancelAfterException)
{
    if (W < 1) W = 1;
    if (W > MAXW) W = MAXW;
    g_cfg.W = W; g_cfg.part = part; g_cfg.assign = assign; g_cfg.order = order; g_cfg.emptyProb = emptyProb;
    g_cfg.seed = seed; g_cfg.inlineFallback = inlineFallback; g_cfg.cancelAfterException = cancelAfterException;
    g_useExplicit = false;
    g_dispatchCount = 0;
}

// explicit schedules for replay / minimisation: flat array
//   ndispatch, then per dispatch: W, nsteps, then nsteps x (start,end,tid)
__attribute__ ((visibility ("default"))) void detsim_set_explicit (const long long* a, int n)
{
    g_explicit.clear (); g_explicitW.clear (); g_explicitPos = 0; g_useExplicit = true; g_dispatchCount = 0;
    int p = 0;
    if (n < 1) return;
    long long nd = a[p++];
    for (long long d = 0; d < nd && p + 1 < n; d++)
    {
        int W = int (a[p++]); long long ns = a[p++];
        if (W < 1) W = 1; if (W > MAXW) W = MAXW;
        std::vector<StepRec> st;
        for (long long i = 0; i < ns && p + 2 < n; i++) { st.push_back ({uint64_t (a[p]), uint64_t (a[p + 1]), int (a[p + 2])}); p += 3; }
        g_explicit.push_back (st); g_explicitW.push_back (W);
    }
    g_cfg.cancelAfterException = 0;
    g_cfg.inlineFallback = 0;
}

__attribute__ ((visibility ("default"))) void detsim_set_cancel (int c) { g_cfg.cancelAfterException = c; }

__attribute__ ((visibility ("default"))) void detsim_reset_trace () { g_trace.clear (); }

__attribute__ ((visibility ("default"))) const char* detsim_trace_json ()
{
    g_json = "[";
    for (size_t i = 0; i < g_trace.size (); i++) { if (i) g_json += ","; appendJson (g_json, g_trace[i]); }
    g_json += "]";
    return g_json.c_str ();
}

__attribute__ ((visibility ("default"))) int detsim_selfcheck_failures () { return g_contractViolations + g_nestedDispatch; }

__attribute__ ((visibility ("default"))) int detsim_threads () { return g_nthreads; }

__attribute__ ((visibility ("default"))) long detsim_race_probe (int len)
{
    RaceProbe t;
    PyImath::dispatchTask (t, size_t (len));
    return RaceProbe::shared;
}
}
