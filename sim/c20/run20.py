"""C20 check: vectorised PyImath operations under a simulated WorkerPool.  DESIGN.md section 3."""
import copy
import json
import os
import subprocess
import sys
import tempfile
import time

sys.path.insert(0, os.path.dirname(os.path.dirname(os.path.dirname(os.path.abspath(__file__)))))
from sim import build, common, pyfleet
from sim.common import log

HERE = os.path.dirname(os.path.abspath(__file__))
DRIVER = os.path.join(HERE, "driver.py")
PROP = "C20"
CHUNK = 50
# runs per flavour
RUNS = {
    "quick": {"tsan": 36000, "asan": 12000},
    "thorough": {"tsan": 400000, "asan": 200000, "plain": 600000},
}
GATE = {"quick": 600, "thorough": 3000}


def count_task_vtables(bd):
    """denominator of the task-type reach measure: Task-derived vtables in the freshly built libraries"""
    n = 0
    names = set()
    libs = []
    d = os.path.join(bd, "src/python/PyImath")
    libs += [os.path.join(d, f) for f in os.listdir(d) if f.endswith(".so")]
    d2 = os.path.join(bd, "python3_11")
    libs += [os.path.join(d2, f) for f in os.listdir(d2) if f.endswith(".so")]
    for lib in libs:
        r = subprocess.run("nm -C --defined-only %s | grep 'vtable for' | grep -E 'Task|Vectorized'" % lib, shell=True, capture_output=True, text=True)
        for line in r.stdout.split("\n"):
            if "vtable for " in line:
                names.add(line.split("vtable for ", 1)[1].strip())
    count_task_vtables.names = names
    return len(names)


def unreached_breakdown(reached):
    """classify the Task vtables of the build that no run dispatched to the pool"""
    import re
    norm = lambda x: re.sub(r"\s+", "", x)  # noqa: E731
    got = set(norm(t) for t in reached)
    miss = [n for n in getattr(count_task_vtables, "names", ()) if norm(n) not in got]
    no_class = [n for n in miss if re.search(r"Vec[234]<unsigned char>", n)]
    rest = [n for n in miss if n not in no_class]
    all_scalar = [n for n in rest if "SimpleNonArrayWrapper" in n and "FixedArray" not in n.split("WritableDirectAccess", 1)[-1]]
    rest = [n for n in rest if n not in all_scalar]
    no_i64 = [n for n in rest if re.search(r"FixedArray<long>::", n)]
    other = [n for n in rest if n not in no_i64]
    return {"total": len(miss),
            "arrays_of_Vec_unsigned_char (no Python class exists for them)": len(no_class),
            "all_scalar_argument_instantiations (length 1: always run inline)": len(all_scalar),
            "operand_FixedArray_of_int64 (no Python class exists for it)": len(no_i64),
            "other": len(other), "other_examples": sorted(other)[:100]}


def single(exe, env, doc, trace_file=None):
    env2 = dict(env)
    if trace_file:
        if os.path.exists(trace_file):
            os.unlink(trace_file)
        env2["DETSIM_TRACE_FILE"] = trace_file
    verdict, sig, detail, trace, hsh = pyfleet.run_plan_doc(exe, env2, DRIVER, doc)
    if trace is None and trace_file and os.path.exists(trace_file):
        with open(trace_file) as f:
            trace = [json.loads(l) for l in f if l.strip()]
    if trace_file and os.path.exists(trace_file):
        os.unlink(trace_file)
    return verdict, sig, detail, trace


def explicit_of(trace):
    return [{"W": d["W"], "steps": d["steps"]} for d in trace]


def minimise(exe, env, plan, sig, trace, budget=45):
    """shrink plan + schedule while the same signature persists; every candidate in a fresh process"""
    tests = [0]
    tf = os.path.join(build.CACHE, "trace-%d.jsonl" % os.getpid())

    def fails(p, sched):
        tests[0] += 1
        v, s, _, tr = single(exe, env, {"plan": p, "schedule": sched}, tf)
        return (v == "violation" and s == sig), tr

    best = copy.deepcopy(plan)
    sched = None      # None = generated from the pool configuration
    # 1. simplify argument kinds, content mode, length (schedule regenerated from the pool config)
    cands = []
    for i, a in enumerate(best["args"]):
        if a.get("kind") in ("masked", "readonly", "alias", "unmasked", "strided"):
            cands.append(("kind", i))
    cands.append(("mode", None))
    cands += [("n", 201), ("n", 221), ("n", 301)]
    for what, arg in cands:
        if tests[0] >= budget:
            break
        c = copy.deepcopy(best)
        if what == "kind":
            c["args"][arg]["kind"] = "direct"
            c["args"][arg].pop("alias_of", None)
            if any(a.get("kind") == "unmasked" for a in c["args"]) and arg == 0:
                continue
        elif what == "mode":
            if c["mode"] == "scaled":
                continue
            c["mode"] = "scaled"
        else:
            if arg >= c["n"]:
                continue
            for a in c["args"]:
                if a.get("n") == c["n"]:
                    a["n"] = arg
            c["n"] = arg
        ok, _ = fails(c, None)
        if ok:
            best = c
    # 2. pin the schedule explicitly, then simplify it
    ok, tr = fails(best, None)
    if ok and tr:
        sched = explicit_of(tr)
        ok2, _ = fails(best, sched)
        if not ok2:
            sched = None
    if sched is not None:
        def try_sched(s2):
            if tests[0] >= budget:
                return False
            ok3, _ = fails(best, s2)
            return ok3

        for di in range(len(sched)):
            # drop empty steps, sort ascending, merge neighbours, renumber tids
            for transform in ("noempty", "ascending", "two", "merge", "tids"):
                d = sched[di]
                st = [list(x) for x in d["steps"]]
                if transform == "noempty":
                    st2 = [x for x in st if x[1] > x[0]]
                elif transform == "ascending":
                    st2 = sorted(st)
                elif transform == "two":
                    ln = max(x[1] for x in st)
                    mid = sorted(st)[len(st) // 2][0] or ln // 2
                    st2 = [[0, mid, 0], [mid, ln, 1]] if 0 < mid < ln else st
                elif transform == "merge":
                    st2 = []
                    for x in st:
                        if st2 and st2[-1][1] == x[0] and st2[-1][2] == x[2]:
                            st2[-1][1] = x[1]
                        else:
                            st2.append(list(x))
                else:
                    order = []
                    for x in st:
                        if x[2] not in order:
                            order.append(x[2])
                    st2 = [[x[0], x[1], order.index(x[2])] for x in st]
                if st2 == st:
                    continue
                s2 = copy.deepcopy(sched)
                s2[di]["steps"] = st2
                s2[di]["W"] = max(d["W"] if transform != "tids" else 1, max(x[2] for x in st2) + 1)
                if try_sched(s2):
                    sched = s2
    return best, sched, tests[0]


def handle(exe, env, flavour, base, v):
    """gate + minimise + write replay + fresh replays for one candidate violation"""
    tf = os.path.join(build.CACHE, "trace-%d.jsonl" % os.getpid())
    rc, out, err = pyfleet.run_single(exe, env, DRIVER, ["--gen", str(base), str(v["idx"])])
    plan = json.loads(out.strip().split("\n")[-1])
    sig = v["signature"]
    traces = []
    for _ in range(2):
        verdict, s, detail, tr = single(exe, env, {"plan": plan}, tf)
        if verdict != "violation" or s != sig:
            raise common.HarnessFault("C20 %s run %d: %s did not reproduce in a fresh process (got %s %s)" % (flavour, v["idx"], sig, verdict, s))
        traces.append(tr)
    if traces[0] != traces[1]:
        raise common.HarnessFault("C20 %s run %d: schedules differ between two executions of the same seed" % (flavour, v["idx"]))
    small, sched, ntests = minimise(exe, env, plan, sig, traces[0])
    # write the concrete array contents into the replay plan: the file then no longer depends on the content generator
    fd, tmpp = tempfile.mkstemp(prefix="embed-", suffix=".json", dir=build.CACHE)
    with os.fdopen(fd, "w") as f:
        json.dump({"plan": small}, f)
    rc, out, err = pyfleet.run_single(exe, env, DRIVER, ["--embed", tmpp])
    os.unlink(tmpp)
    for line in out.split("\n"):
        if line.startswith("EMBEDDED "):
            emb = json.loads(line[9:])
            v2, s2, _, _ = single(exe, env, {"plan": emb, "schedule": sched}, tf)
            if v2 == "violation" and s2 == sig:
                small = emb
    doc = {"property": PROP, "flavour": flavour, "seed": v["seed"], "base_seed": base, "run_index": v["idx"], "class": v["cls"],
           "signature": sig, "plan": small, "schedule": sched, "observed": v["detail"], "minimisation_tests": ntests,
           "original_plan": plan}
    if v.get("stderr"):
        doc["sanitizer_report_tail"] = v["stderr"][-2500:]
    name = "%s-run%d-%s" % (flavour, v["idx"], "".join(c if c.isalnum() else "_" for c in sig)[:80])
    path = common.write_replay(PROP, name, doc)
    for _ in range(2):
        verdict, s, detail, tr = single(exe, env, {"plan": small, "schedule": sched}, tf)
        if verdict != "violation" or s != sig:
            raise common.HarnessFault("C20 replay of %s did not reproduce (%s %s)" % (path, verdict, s))
    return {"signature": sig, "replay": path, "detail": v["detail"]}


def replay(path):
    with open(path) as f:
        doc = json.load(f)
    exe, env, bd = pyfleet.prepare(doc.get("flavour", "plain"))
    tf = os.path.join(build.CACHE, "trace-%d.jsonl" % os.getpid())
    verdict, s, detail, tr = single(exe, env, {"plan": doc["plan"], "schedule": doc.get("schedule")}, tf)
    log("replay %s: %s %s %s" % (path, verdict, s, detail))
    if verdict == "violation":
        k = common.match_known(PROP, s)
        if k:
            log("KNOWN-FINDING: property=%s %s (signature %s, replay %s)" % (PROP, k["what"], s, path))
            return 0
        log("VIOLATION property=%s replay=%s" % (PROP, path))
        return 1
    if verdict != "ok":
        raise common.HarnessFault("replay ended with %s" % verdict)
    return 0


def main(tier, base_seed):
    t0 = time.time()
    workers = int(os.environ.get("VERIF_WORKERS", "16"))
    plan_runs = dict(RUNS[tier])
    if os.environ.get("VERIF_RUNS"):
        scale = float(os.environ["VERIF_RUNS"])
        plan_runs = {k: max(CHUNK, int(v * scale)) for k, v in plan_runs.items()}
    log("[C20] tier=%s base_seed=%d runs=%s" % (tier, base_seed, plan_runs))
    results = []
    cov = {"per_flavour": {}}
    agg_all, sched_all, tasks_all, entries_all = {}, set(), set(), {}
    gate_failures = []
    total_runs = 0
    vt = 0
    tree = None
    for flavour, nruns in plan_runs.items():
        exe, env, bd = pyfleet.prepare(flavour)
        tree = tree or build.tree_id()
        if not vt:
            vt = count_task_vtables(bd)
        tf = time.time()
        # determinism gate: first GATE seeds twice more, with other worker counts and another PYTHONHASHSEED
        gate_n = min(GATE[tier], nruns)
        main_b = pyfleet.HostBatch(flavour, DRIVER, base_seed, nruns, workers, CHUNK, exe, env)
        main_b.keep_run_hashes = True
        main_b.run()
        env2 = dict(env)
        env2["PYTHONHASHSEED"] = "12345"
        g = pyfleet.HostBatch(flavour, DRIVER, base_seed, gate_n, 3, CHUNK, exe, env2)
        g.keep_run_hashes = True
        g.run()
        mism = [i for i, h in g.run_hash.items() if main_b.run_hash.get(i) != h]
        if mism:
            # never a verdict by itself (see run19): candidates must pass their own reproduction gates
            gate_failures.append("C20 %s determinism gate: trace hashes differ for runs %s" % (flavour, mism[:8]))
        if main_b.harness and not main_b.viol:
            raise common.HarnessFault("C20 %s worker problem: %r" % (flavour, main_b.harness[0],))
        log("[C20] %s: %d runs in %.0fs, %d dispatched, %d distinct schedules, %d task types; gate: %d runs re-executed (3 workers, other PYTHONHASHSEED), hashes equal; %d candidate violations"
            % (flavour, nruns, time.time() - tf, main_b.agg.get("runs_dispatched", 0), len(main_b.sched), len(main_b.tasks), len(g.run_hash), len(main_b.viol)))
        by_sig = {}
        for v in sorted(main_b.viol, key=lambda x: x["idx"]):
            by_sig.setdefault(v["signature"], v)
        done_sigs = set(r["signature"] for r in results)
        for sig, v in list(by_sig.items())[:6]:
            if sig in done_sigs:
                continue
            try:
                r = handle(exe, env, flavour, base_seed, v)
            except common.HarnessFault as e:
                gate_failures.append(str(e))
                continue
            k = common.match_known(PROP, r["signature"])
            if k:
                r["known"], r["what"] = True, k["what"]
            results.append(r)
        for k, v in main_b.agg.items():
            agg_all[k] = agg_all.get(k, 0) + v
        sched_all |= main_b.sched
        tasks_all |= main_b.tasks
        for k, v in main_b.entries.items():
            entries_all[k] = entries_all.get(k, 0) + v
        total_runs += nruns
        cov["per_flavour"][flavour] = {"runs": nruns, "wall_s": round(time.time() - tf, 1), "runs_dispatched": main_b.agg.get("runs_dispatched", 0),
                                       "distinct_schedules": len(main_b.sched), "task_types": len(main_b.tasks), "worker_deaths": main_b.deaths,
                                       "violating_runs": len(main_b.viol), "determinism_gate_runs": len(g.run_hash),
                                       "dispatch_threshold_measured": sorted(main_b.extra.get("dispatch_threshold", []))}

    wall = time.time() - t0
    exe, env, bd = pyfleet.prepare(list(plan_runs)[0])
    samples = []
    for i in (0, 1, 3):
        rc, out, err = pyfleet.run_single(exe, env, DRIVER, ["--gen", str(base_seed), str(i)])
        try:
            samples.append({"run_index": i, "plan": json.loads(out.strip().split("\n")[-1])})
        except Exception:
            pass
    rc, out, err = pyfleet.run_single(exe, env, DRIVER, ["--catalogue"])
    cat_n = int(out.split("\n")[0]) if out.strip() else 0
    hand = sorted(t for t in tasks_all if "Vectorized" not in t)
    coverage = {
        "evaluations": total_runs,
        "distinct_nontrivial": len(sched_all),
        "rule": "one evaluation = one simulated run: an entry point of the catalogue (every overload of the freshly built imath module with a 1-D array argument "
                "or result, walked round-robin by run index in half the runs) with generated argument kinds (direct/masked/read-only/same-object/unmasked-length), "
                "executed once without a pool and once under the simulated WorkerPool with a seeded partition/assignment/order, then compared (O1 bit-wise schedule "
                "independence, O2 same overload on single elements, O4 loop over the scalar form, O6 length mismatch). distinct_nontrivial = distinct canonical schedules "
                "(hash of len, W and the ordered (start,end,tid) steps of every dispatch of the run); runs that never reached the pool (len<=200, serial entry points) are not counted",
        "samples": samples,
        "scheduler_steps": agg_all.get("steps", 0),
        "simulated_time": "no clock exists in the code under test; simulated time = pool steps executed (%d)" % agg_all.get("steps", 0),
        "runs_per_hour": int(total_runs / max(wall, 1e-9) * 3600),
        "catalogue_entries": cat_n,
        "catalogue_entries_dispatched": len(entries_all),
        "task_types_dispatched": len(tasks_all),
        "task_vtables_in_build": vt,
        "task_vtables_never_dispatched": unreached_breakdown(tasks_all),
        "hand_written_tasks_reached": hand,
        "faults_fired": {k[6:]: v for k, v in sorted(agg_all.items()) if k.startswith("fault.")},
        "probes_hit": {k[6:]: v for k, v in sorted(agg_all.items()) if k.startswith("probe.")},
        "oracle_checks": {k: v for k, v in sorted(agg_all.items()) if k.startswith("o")},
        "runs_that_raised_in_both": agg_all.get("raised", 0),
        "per_flavour": cov["per_flavour"],
        "components": {"real": ["libImath, libPyImath, imath.so rebuilt from /repo's working tree (instrumented per flavour)", "CPython 3.11 + boost.python 1.83 (uninstrumented)",
                                "OS threads executing the sub-ranges"],
                       "simulated": ["PyImath::WorkerPool (SimWorkerPool via setCurrentPool)", "the OS scheduler (one parked worker released at a time in seeded order; "
                                     "hand-off invisible to TSan, pool-guaranteed edges annotated)"]},
        "tree_id": tree,
    }
    assumptions = [
        "legal-schedule contract inferred from the call sites: exact cover of [0,len), 0<=tid<workers(), steps of one tid never overlap, all steps done before dispatch returns",
        "TSan keeps 4 accesses per 8-byte cell: a conflicting pair separated by >=4 other accesses to the same cell can be missed",
        "ASan/TSan see only instrumented code (Imath, PyImath), not CPython/boost internals",
        "array contents: a 31-element PRNG palette laid out with period 961 (a pure function of the content seed recorded in the plan)",
        "integer division by zero / projective integer division are avoided (they kill the process with or without a pool)",
        "seeded sampling, not enumeration: a clean batch is evidence, not proof",
    ]
    unknown = [r for r in results if not r.get("known")]
    if gate_failures and not unknown:
        raise common.HarnessFault("; ".join(gate_failures[:3]))
    coverage["reproduction_gate_failures"] = gate_failures[:5]
    common.write_evidence(PROP, tier, base_seed, coverage, assumptions, wall, len(unknown),
                          extra={"known_findings_reported": [r["signature"] for r in results if r.get("known")]})
    log("[C20] %d runs, %d distinct schedules, %d/%d task types, %.0fs" % (total_runs, len(sched_all), len(tasks_all), vt, wall))
    return common.report(PROP, results)
