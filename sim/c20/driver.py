"""C20 driver: runs inside the embedding host (plain / asan / tsan) next to the freshly built imath
module and the native SimWorkerPool (libdetsim.so).  DESIGN.md section 3.

  driver.py --batch                 read "base lo hi" lines, run seeds mix(base,20,i); protocol lines on stdout
  driver.py --plan <file.json>      execute one explicit plan (optionally with an explicit schedule)
  driver.py --catalogue             print the catalogue summary
"""
import ctypes
import hashlib
import json
import os
import re
import struct
import sys

sys.path.insert(0, os.path.dirname(os.path.dirname(os.path.dirname(os.path.abspath(__file__)))))
import imath  # noqa: E402

from sim import pytypes as PT  # noqa: E402
from sim.prng import Rng, mix  # noqa: E402

# ---------------------------------------------------------------------------------------------------
# native pool
# ---------------------------------------------------------------------------------------------------
L = ctypes.CDLL(os.environ["DETSIM_LIB"])
L.detsim_trace_json.restype = ctypes.c_char_p
L.detsim_configure.argtypes = [ctypes.c_int] * 4 + [ctypes.c_double, ctypes.c_ulonglong, ctypes.c_int, ctypes.c_int]
L.detsim_set_explicit.argtypes = [ctypes.POINTER(ctypes.c_longlong), ctypes.c_int]


def pool_off():
    L.detsim_install(0)


def pool_on(cfg, explicit=None):
    L.detsim_reset_trace()
    if explicit is not None:
        flat = [len(explicit)]
        for d in explicit:
            flat += [d["W"], len(d["steps"])]
            for s in d["steps"]:
                flat += [s[0], s[1], s[2]]
        arr = (ctypes.c_longlong * len(flat))(*flat)
        L.detsim_set_explicit(arr, len(flat))
        L.detsim_set_cancel(int(cfg.get("cancel", 0)))
    else:
        L.detsim_configure(cfg["W"], cfg["part"], cfg["assign"], cfg["order"], cfg["empty"], cfg["sub"], cfg["inline"], cfg["cancel"])
    L.detsim_install(1)


def pool_trace():
    return json.loads(L.detsim_trace_json().decode())


def detect_threshold():
    """T = the largest length that dispatchTask still runs inline although a pool is installed (200 in the pinned tree:
    an internal constant, which the lengths of the generated runs are placed around).  Measured, not assumed: a tree
    that moves the threshold keeps its runs around the new one.  Deterministic for a given build."""
    cfg = {"W": 2, "part": 0, "assign": 0, "order": 0, "empty": 0.0, "sub": 1, "inline": 0, "cancel": 0}

    def dispatched(n):
        a = imath.IntArray(n)
        pool_on(cfg)
        try:
            a + a
        finally:
            pool_off()
        return bool(pool_trace())
    lo, hi = 1, 1 << 15
    if not dispatched(hi):
        return 200          # never dispatched: the runs will say so (runs_dispatched = 0)
    while lo < hi:
        mid = (lo + hi) // 2
        if dispatched(mid):
            hi = mid
        else:
            lo = mid + 1
    L.detsim_reset_trace()
    return lo - 1


T = detect_threshold()


# ---------------------------------------------------------------------------------------------------
# catalogue: every overload with a 1-D array among its arguments or as its result
# ---------------------------------------------------------------------------------------------------
SIG = re.compile(r"^(\w+)\((.*)\) -> (\w+) :$")
ARGT = re.compile(r"\[?\s*,?\s*\((\w+)\)")
SKIP_NAMES = {"__init__", "__getitem__", "__setitem__", "__len__", "__copy__", "__deepcopy__", "makeReadOnly", "writable",
              "__reduce__", "__getstate__", "__setstate__", "__repr__", "__str__", "__iter__", "item", "size", "__hash__"}


def build_catalogue():
    entries = []
    seen = set()

    def scan(owner, name, obj):
        doc = getattr(obj, "__doc__", None)
        if not isinstance(doc, str):
            return
        for line in doc.split("\n"):
            m = SIG.match(line.strip())
            if not m:
                continue
            raw = m.group(2).strip()
            ret = m.group(3)
            # optional trailing arguments "a, b [, c [, d]]": one entry per admissible argument count
            required = raw.split("[")[0]
            nreq = len([a for a in required.split(",") if a.strip()]) if required.strip() else 0
            flat = raw.replace("[", "").replace("]", "")
            allargs = [ARGT.match(a.strip()).group(1) if ARGT.match(a.strip()) else "?" for a in flat.split(",") if a.strip()] if flat else []
            for cnt in range(nreq, len(allargs) + 1):
                args = allargs[:cnt]
                if not (any(PT.is_array(a) for a in args) or PT.is_array(ret)):
                    continue
                if any(not (a in PT.TYPES or a in PT.ARRAYS) for a in args):
                    continue
                key = (owner, name, tuple(args))
                if key in seen:
                    continue
                seen.add(key)
                entries.append({"owner": owner, "name": name, "args": args, "ret": ret})

    for n in sorted(dir(imath)):
        o = getattr(imath, n)
        if isinstance(o, type):
            if n.endswith("Array2D") or n.endswith("Matrix") or n in ("StringArray", "WstringArray") or n.startswith("VV") or n in ("VIntArray", "VFloatArray"):
                continue
            for mn in sorted(o.__dict__):
                if mn in SKIP_NAMES:
                    continue
                try:
                    scan(n, mn, getattr(o, mn))
                except Exception:
                    pass
        elif callable(o) and not n.endswith("FromBuffer"):
            scan("", n, o)
    return entries


CAT = build_catalogue()
if os.environ.get("VERIF_C20_FILTER"):
    # sensitivity experiments only: restrict the catalogue (registered checks never set this)
    _f = re.compile(os.environ["VERIF_C20_FILTER"])
    CAT = [e for e in CAT if _f.search("%s.%s(%s)" % (e["owner"], e["name"], ",".join(e["args"])))]
DIVLIKE = re.compile(r"div|mod", re.I)


# ---------------------------------------------------------------------------------------------------
# plan generation (the only place the run PRNG is used)
# ---------------------------------------------------------------------------------------------------
def gen_plan(seed, idx):
    r = Rng(seed)
    N = len(CAT)
    ei = (idx // 2) % N if idx % 2 == 0 else r.below(N)
    e = CAT[ei]
    n = r.weighted([(70, "near"), (8, "thr"), (10, "mid"), (3, "big"), (9, "small")])
    n = {"near": lambda: r.range(T + 1, T + 64), "thr": lambda: r.choice([T - 1, T, T + 1]), "mid": lambda: r.range(T + 65, T + 400),
         "big": lambda: r.range(5 * T, 15 * T), "small": lambda: r.range(1, 50)}[n]()
    mode = r.weighted([(40, "bit"), (48, "scaled"), (12, "zeros")])
    if DIVLIKE.search(e["name"]):
        mode = "nz"
    inplace = e["ret"] == "None" or e["name"].startswith("__i")
    args = []
    arr_idx = [i for i, t in enumerate(e["args"]) if PT.is_array(t)]
    mismatch_at = r.choice(arr_idx) if (len(arr_idx) >= 2 and r.chance(0.06)) else -1
    for i, t in enumerate(e["args"]):
        a = {"t": t, "cs": r.next() >> 1}
        if PT.is_array(t):
            k = r.weighted([(55, "direct"), (20, "masked"), (10, "readonly"), (8, "alias"), (7, "unmasked")])
            if k == "direct" and t in STRIDED and STRIDED[t] and r.chance(0.25):
                k = "strided"
            if k == "alias":
                prev = [j for j in range(i) if e["args"][j] == t and args[j]["kind"] in ("direct", "masked", "readonly", "strided")]
                k = "direct"
                if prev:
                    a["alias_of"] = r.choice(prev)
                    k = "alias"
            if i >= 1 and inplace and args[0].get("kind") == "masked" and e["args"][0] in PT.ARRAYS and r.chance(0.3):
                k = "unmasked"     # the path only a masked in-place left-hand side has: make it common enough
            if (i >= 1 and inplace and args[0].get("kind") == "masked" and e["args"][0] == t and mismatch_at < 0
                    and k in ("direct", "masked") and r.chance(0.25)):
                k = "overlap"      # another masked reference (other positions) into the left-hand side's own storage
            if k == "unmasked":
                # right-hand side of unmasked length for a masked in-place left-hand side
                if i >= 1 and inplace and args[0].get("kind") == "masked" and e["args"][0] in PT.ARRAYS:
                    k = "unmasked"
                else:
                    k = "direct"
            a["kind"] = k
            if k == "unmasked" and r.chance(0.4):
                a["um_extra"] = r.range(1, 20)     # the unmasked-length operand is itself a masked reference
            a["n"] = n
            if i == mismatch_at:
                a["n"] = max(0, n + r.choice([-1, 1, -7, 13, -n + 1]))
                if a["kind"] in ("alias", "unmasked"):
                    a["kind"] = "direct"
                    a.pop("alias_of", None)
                    a.pop("um_extra", None)
            if k == "masked":
                a["extra"] = r.range(1, 40)
            if k in ("masked", "strided") and r.chance(0.2):
                a["ro"] = True      # the view is taken from a read-only array
        args.append(a)
    # a scalar argument that is not a value of its own but an element reference into one of the argument arrays
    # (va -= va[3]: for class-type elements a[i] is a reference into the array's storage, not a copy)
    for i, a in enumerate(args):
        if "kind" in a:
            continue
        cands = [j for j in range(i) if PT.is_array(e["args"][j]) and PT.ARRAYS[e["args"][j]].name == a["t"] and args[j]["kind"] != "alias"]
        if cands and r.chance(0.2 if inplace else 0.05):
            a["elemref"] = [r.choice(cands), r.below(1 << 20)]
    # a deliberately mismatched operand must not hit the unmasked length of a masked left-hand side by accident
    # (that length is legal and selects through the mask: it is the 'unmasked' kind, generated on purpose above)
    if args and args[0].get("kind") == "masked":
        total0 = args[0]["n"] + args[0]["extra"]
        for a in args[1:]:
            if a.get("kind") in ("direct", "readonly", "masked") and a["n"] == total0 and a["n"] != args[0]["n"]:
                a["n"] += 1
    W = r.weighted([(2, 1), (4, 2), (4, 3), (5, 4), (3, 7), (3, 8), (2, 13), (3, 16)])
    pool = {"W": W, "part": r.below(8), "assign": r.below(6), "order": r.below(6),
            "empty": r.choice([0.0, 0.0, 0.1, 0.3]), "sub": r.next() >> 1,
            "inline": r.weighted([(90, 0), (4, -1), (6, 2)]), "cancel": r.below(2)}
    o2 = "all" if (n <= T + 100 and r.chance(0.15)) else r.range(0, 1 << 30)
    # integer vectors times a projective matrix divide by an integer w that truncates to 0 -> SIGFPE with or
    # without a pool (outside C20): keep matrices affine whenever an integer-based operand is involved
    affine = any(re.match(r"V\d(c|s|i|i64)(Array)?$", t) for t in e["args"]) and any(t.startswith("M") for t in e["args"])
    return {"entry": {"owner": e["owner"], "name": e["name"], "args": e["args"], "ret": e["ret"]}, "n": n, "mode": mode, "affine": affine,
            "args": args, "pool": pool, "o2": o2}


# ---------------------------------------------------------------------------------------------------
# materialisation of a plan: concrete objects, deterministic from the plan alone
# ---------------------------------------------------------------------------------------------------
def make_affine(t, m):
    d = int(t.name[1])
    vals = t.flat(m)
    for i in range(d):
        vals[i * d + d - 1] = 1.0 if i == d - 1 else 0.0
    return t.make(vals)


PALETTE = 31
_ELEMS = {}


def gen_array_elems(t, n, cs, mode, affine):
    """Contents of an array: a pure function of (type, n, content seed, mode).  A palette of 31 PRNG-generated
    elements laid out with period 31*31 (or, three times in ten, in runs of 2-30 equal neighbours), so neighbouring (and 31-apart) positions hold different values: a task
    that reads or writes the wrong index is visible.  Cached per run: the worlds A, B and the element-wise
    reference are built from the same element objects (assignment into an array copies the value)."""
    key = (t, n, cs, mode, affine)
    el = _ELEMS.get(key)
    if el is None:
        et = PT.ARRAYS[t]
        rr = Rng(cs)
        pal = [et.generate(rr, mode) for _ in range(min(PALETTE, max(n, 1)))]
        if affine and t.startswith("M"):
            pal = [make_affine(et, m) for m in pal]
        k = len(pal)
        a, b = 1 + rr.below(k - 1) if k > 1 else 0, rr.below(k)
        if rr.chance(0.3):
            # runs of equal neighbours (instanced data): a task that consults a neighbouring element is visible
            run = 2 + rr.below(29)
            el = [pal[((i // run) * a + b) % k] for i in range(n)]
        else:
            el = [pal[(i * a + (i // k) * 3 + b) % k] for i in range(n)]
        if len(_ELEMS) > 16:
            _ELEMS.clear()
        _ELEMS[key] = el
    return el


def array_elems(a, t, n, cs, mode, affine):
    """elements of one array argument: embedded in the plan (replay files carry the concrete values, so that they do
    not depend on the content generator of the /verif commit that wrote them) or generated from the content seed"""
    emb = a.get("elems")
    if emb is not None and len(emb) == n:
        et = PT.ARRAYS[t]
        key = ("emb", id(emb))
        el = _ELEMS.get(key)
        if el is None:
            el = [et.make(list(v)) for v in emb]
            _ELEMS[key] = el
        return el
    return gen_array_elems(t, n, cs, mode, affine)


def embed_contents(plan):
    """copy of the plan with the concrete element values of every array argument written out"""
    import copy
    p2 = copy.deepcopy(plan)
    mode, affine = plan["mode"], plan.get("affine")
    for i, a in enumerate(p2["args"]):
        t = a["t"]
        if not PT.is_array(t) or a.get("kind") in ("alias", "overlap"):
            continue
        n = a["n"]
        if a["kind"] == "masked":
            n = a["n"] + a["extra"]
        elif a["kind"] == "unmasked":
            a0 = p2["args"][0]
            n = a0["n"] + a0.get("extra", 0) + a.get("um_extra", 0)
        et = PT.ARRAYS[t]
        a["elems"] = [list(et.flat(x)) for x in gen_array_elems(t, n, a["cs"], mode, affine)]
        if a["kind"] == "strided":
            choices = STRIDED[t]
            ptype = choices[(a["cs"] >> 3) % len(choices)][0]
            pt = PT.ARRAYS[ptype]
            a["filler"] = [list(pt.flat(x)) for x in gen_array_elems(ptype, n, a["cs"] ^ 0x7F4A7C15, "scaled" if mode == "nz" else mode, False)]
    return p2


# strided operands: a component view of a wider array (v3fArray.x, boxArray.min): same element type, stride > 1
STRIDED = {
    "FloatArray": [("V3fArray", "x", 0, 3), ("V2fArray", "y", 1, 2), ("C4fArray", "a", 3, 4), ("QuatfArray", "r", 0, 4), ("C3fArray", "b", 2, 3)],
    "DoubleArray": [("V3dArray", "z", 2, 3), ("QuatdArray", "x", 1, 4), ("V2dArray", "x", 0, 2)],
    "IntArray": [("V3iArray", "y", 1, 3), ("V2iArray", "x", 0, 2)],
    "ShortArray": [("V3sArray", "x", 0, 3), ("V2sArray", "y", 1, 2)],
    "UnsignedCharArray": [("C3cArray", "g", 1, 3), ("C4cArray", "r", 0, 4)],
    "V3fArray": [("Box3fArray", "min", 0, 2), ("Box3fArray", "max", 1, 2)],
    "V3dArray": [("Box3dArray", "max", 1, 2)],
    "V2fArray": [("Box2fArray", "min", 0, 2)],
    "V2dArray": [("Box2dArray", "max", 1, 2)],
    "V3iArray": [("Box3iArray", "min", 0, 2)],
    "V2iArray": [("Box2iArray", "max", 1, 2)],
    "V3sArray": [("Box3sArray", "min", 0, 2)],
}
STRIDED = {k: [x for x in v if hasattr(imath, x[0])] for k, v in STRIDED.items()}


def strided_view(a, t, n, cs, mode, affine):
    """(parent array, view): the view selects component/half `c` of every parent element and equals the wanted elements"""
    choices = STRIDED[t]
    ptype, prop, c, parts = choices[(cs >> 3) % len(choices)]
    et, pt = PT.ARRAYS[t], PT.ARRAYS[ptype]
    want = array_elems(a, t, n, cs, mode, affine)
    if a.get("filler") is not None and len(a["filler"]) == n:
        filler = [pt.make(list(v)) for v in a["filler"]]          # replay files carry the filler components too
    else:
        filler = gen_array_elems(ptype, n, cs ^ 0x7F4A7C15, "scaled" if mode == "nz" else mode, False) if n else []
    w = et.n
    parent = getattr(imath, ptype)(n)
    for i in range(n):
        pf = list(pt.flat(filler[i]))
        pf[c * w:(c + 1) * w] = list(et.flat(want[i]))
        try:
            parent[i] = pt.make(pf)
        except Exception:  # noqa: BLE001 - filler not constructible with these values: neutral filler
            pf = [0] * len(pf)
            pf[c * w:(c + 1) * w] = list(et.flat(want[i]))
            parent[i] = pt.make(pf)
    return parent, getattr(parent, prop)


class World:
    """objects built from a plan: call arguments + every array whose post-state matters"""

    def __init__(self, plan):
        self.args = []
        self.tracked = []      # (label, type name, object)
        self.maskpos = {}      # arg index -> positions selected by its mask
        mode = plan["mode"]
        affine = plan.get("affine")
        for i, a in enumerate(plan["args"]):
            t = a["t"]
            if not PT.is_array(t):
                er = a.get("elemref")
                if er and len(self.args[er[0]]) > 0:
                    src = self.args[er[0]]
                    self.args.append(src[er[1] % len(src)])
                    continue
                v = PT.TYPES[t].generate(Rng(a["cs"]), mode)
                if affine and t.startswith("M"):
                    v = make_affine(PT.TYPES[t], v)
                self.args.append(v)
                continue
            k = a["kind"]
            if k == "alias":
                self.args.append(self.args[a["alias_of"]])
                if a["alias_of"] in self.maskpos:
                    self.maskpos[i] = self.maskpos[a["alias_of"]]
                continue
            cs = a["cs"]
            n = a["n"]
            if k == "overlap":
                a0 = plan["args"][0]
                total = a0["n"] + a0["extra"]
                pos = list(range(total))
                Rng(cs ^ 0x1B873593).shuffle(pos)
                pos = sorted(pos[:a0["n"]])
                mask = imath.IntArray(total)
                for p in pos:
                    mask[p] = 1
                self.maskpos[i] = pos
                self.args.append(self.under0[mask])
                continue
            if k == "masked":
                total = n + a["extra"]
                pos = list(range(total))
                Rng(cs ^ 0x5bd1e995).shuffle(pos)
                pos = sorted(pos[:n])
                under = PT.make_array(t, array_elems(a, t, total, cs, mode, affine))
                mask = imath.IntArray(total)
                for p in pos:
                    mask[p] = 1
                if a.get("ro"):
                    under.makeReadOnly()
                ref = under[mask]
                self.maskpos[i] = pos
                if i == 0:
                    self.under0 = under
                self.tracked.append(("arg%d.underlying" % i, t, under))
                self.args.append(ref)
            elif k == "unmasked":
                # as long as the left-hand side's underlying array
                a0 = plan["args"][0]
                total = a0["n"] + a0.get("extra", 0)
                if a.get("um_extra"):
                    big = total + a["um_extra"]
                    pos = list(range(big))
                    Rng(cs ^ 0x2545F491).shuffle(pos)
                    pos = sorted(pos[:total])
                    under = PT.make_array(t, array_elems(a, t, big, cs, mode, affine))
                    mask = imath.IntArray(big)
                    for p in pos:
                        mask[p] = 1
                    arr = under[mask]
                    self.tracked.append(("arg%d.underlying" % i, t, under))
                else:
                    arr = PT.make_array(t, array_elems(a, t, total, cs, mode, affine))
                    self.tracked.append(("arg%d" % i, t, arr))
                self.args.append(arr)
            elif k == "strided":
                parent, view = strided_view(a, t, n, cs, mode, affine)
                if a.get("ro"):
                    parent.makeReadOnly()
                    view = getattr(parent, STRIDED[t][(cs >> 3) % len(STRIDED[t])][1])
                self.tracked.append(("arg%d.parent" % i, type(parent).__name__, parent))
                self.args.append(view)
            else:
                arr = PT.make_array(t, array_elems(a, t, n, cs, mode, affine))
                if k == "readonly":
                    arr.makeReadOnly()
                self.tracked.append(("arg%d" % i, t, arr))
                self.args.append(arr)

    def mismatched(self, plan):
        arrs = [(x, a) for x, a in zip(self.args, plan["args"]) if PT.is_array(a["t"]) and a.get("kind") != "unmasked"]
        if not arrs:
            return False
        legal = {len(arrs[0][0])}
        a0 = plan["args"][0]
        if a0.get("kind") == "masked":
            legal.add(a0["n"] + a0.get("extra", 0))     # the unmasked length is a legal operand length for a masked left-hand side
        return any(len(x) not in legal for x, a in arrs)

    def call(self, entry):
        if entry["owner"]:
            return getattr(self.args[0], entry["name"])(*self.args[1:])
        return getattr(imath, entry["name"])(*self.args)

    def state(self):
        return [(lab, PT.pack_array(t, o)) for lab, t, o in self.tracked]


def exc_name(e):
    return type(e).__name__


def run_world(plan, w):
    try:
        res = w.call(plan["entry"])
        return ("ok", res)
    except Exception as e:  # noqa: BLE001 - every Python-level exception is an outcome
        return ("exc", exc_name(e))


def pack_result(res):
    tn = type(res).__name__
    if res is None:
        return ("N",)
    if tn in PT.ARRAYS:
        return ("A", tn, len(res), PT.pack_array(tn, res))
    if tn in PT.TYPES:
        return ("S", tn, PT.TYPES[tn].pack(res))
    if isinstance(res, bool):
        return ("b", res)
    if isinstance(res, int):
        return ("i", res)
    if isinstance(res, float):
        return ("f", struct.pack("<d", float("nan") if res != res else res))
    if isinstance(res, tuple):
        return ("T",) + tuple(pack_result(x) for x in res)
    return ("R", tn, repr(res))


def only_zero_sign(pa, pb):
    """True when two packed float blobs differ only in the sign of zeros"""
    if not (isinstance(pa, bytes) and isinstance(pb, bytes) and len(pa) == len(pb)):
        return False
    va = struct.unpack("<%dd" % (len(pa) // 8), pa)
    vb = struct.unpack("<%dd" % (len(pb) // 8), pb)
    diff = False
    for x, y in zip(va, vb):
        if struct.pack("<d", x) != struct.pack("<d", y):
            if x == 0.0 and y == 0.0:
                diff = True
            else:
                return False
    return diff


def diff_result(a, b):
    """returns None if equal, else a tag"""
    if a == b:
        return None
    if a[0] != b[0] or len(a) != len(b):
        return "type-or-shape"
    blob_a, blob_b = a[-1], b[-1]
    if only_zero_sign(blob_a, blob_b):
        return "zero-sign-only"
    return "value"


# ---------------------------------------------------------------------------------------------------
# one run
# ---------------------------------------------------------------------------------------------------
def entry_label(e):
    return "%s%s(%s)" % (e["owner"] + "." if e["owner"] else "", e["name"], ",".join(e["args"][1:] if e["owner"] else e["args"]))


def run_label(plan):
    return entry_label(plan["entry"])


def kinds_label(plan):
    return ",".join(a.get("kind", "elemref" if a.get("elemref") else "scalar") for a in plan["args"])


def o2_positions(plan, trace, n):
    if plan["o2"] == "all":
        return list(range(n))
    r = Rng(plan["o2"])
    pos = set()
    for d in trace:
        for s in d["steps"][:24]:
            if s[1] > s[0]:
                pos.add(s[0])
                pos.add(s[1] - 1)
    pos = sorted(p for p in pos if p < n)[:24]
    pos = set(pos)
    for _ in range(4):
        pos.add(r.below(n))
    pos.add(0)
    pos.add(n - 1)
    return sorted(pos)


def element_check(plan, wb, resb, positions, stats):
    """O2 (same overload on length-1 operands) and O3 (scalar class binding) at the given positions.
    Returns None or (signature-tag, detail)."""
    e = plan["entry"]
    wc = World(plan)             # pristine source of elements
    n = plan["n"]
    res_is_array = type(resb).__name__ in PT.ARRAYS and len(resb) == n
    owner_is_array = bool(e["owner"]) and e["owner"] in PT.ARRAYS
    inplace = resb is None or (owner_is_array and resb is wb.args[0])
    if not (res_is_array or inplace):
        return None
    if e["owner"] and not owner_is_array and not res_is_array:
        return None
    arr_args = [i for i, a in enumerate(plan["args"]) if PT.is_array(a["t"])]
    for p in positions:
        ones = {}
        call_args = []
        for i, a in enumerate(plan["args"]):
            if i not in arr_args:
                call_args.append(wc.args[i])
                continue
            if a["kind"] == "alias":
                call_args.append(ones[a["alias_of"]])
                ones[i] = ones[a["alias_of"]]
                continue
            q = p
            if a["kind"] == "unmasked":
                q = wc.maskpos[0][p]
            one = PT.make_array(a["t"], [wc.args[i][q]])
            ones[i] = one
            call_args.append(one)
        try:
            if e["owner"]:
                r1 = getattr(call_args[0], e["name"])(*call_args[1:])
            else:
                r1 = getattr(imath, e["name"])(*call_args)
        except Exception as ex:  # noqa: BLE001
            return ("o2-elementwise/raises-on-single-element", "position %d: %s" % (p, exc_name(ex)))
        stats["o2_checked"] = stats.get("o2_checked", 0) + 1
        if res_is_array and not (inplace and owner_is_array and resb is wb.args[0]):
            tn = type(resb).__name__
            if type(r1).__name__ != tn or len(r1) != 1:
                return None   # not an element-wise operation after all
            t = PT.ARRAYS[tn]
            if t.pack(r1[0]) != t.pack(resb[p]):
                return ("o2-elementwise/result", "position %d: vectorised %r, same op on the single element %r" % (p, resb[p], r1[0]))
        # post-state of every array argument at this position
        for i in arr_args:
            a = plan["args"][i]
            if a["kind"] in ("alias", "overlap"):
                continue        # (an overlapping view shows the destination's storage: its post-state is the destination's)
            q = p
            if a["kind"] == "unmasked":
                q = wc.maskpos[0][p]
            t = PT.ARRAYS[a["t"]]
            if t.pack(ones[i][0]) != t.pack(wb.args[i][q]):
                return ("o2-elementwise/argument-post-state", "arg %d position %d: vectorised %r, single element %r" % (i, q, wb.args[i][q], ones[i][0]))
    return None


F32_EPS, F64_EPS = 2.0 ** -23, 2.0 ** -52


def close_enough(x, y, eps, scale):
    """O3 tolerance: equal, both NaN, or within 64 eps of the operands' magnitude (different code paths)"""
    if x == y or (x != x and y != y):
        return True
    if x != x or y != y or x in (float("inf"), float("-inf")) or y in (float("inf"), float("-inf")):
        return False
    return abs(x - y) <= 64 * eps * max(abs(x), abs(y), scale)


def scalar_binding_check(plan, wb, resb, positions, stats):
    """O3: the element class's own binding of the same name (V3fArray.cross <-> V3f.cross, imath.sin(FloatArray) <->
    imath.sin(float)), applied to element i of every array argument, against element i of the array result.
    Integer / boolean results must be identical; floating results within a deliberately loose tolerance (its job
    is to catch a wrong element function, argument or overload, not to re-judge numerics)."""
    e = plan["entry"]
    n = plan["n"]
    if not e["owner"] and plan["mode"] not in ("scaled", "nz"):
        # module functions on the basic arrays: the scalar call resolves Python floats to the double overload, the
        # array runs in float - with extreme values (overflow) the two legitimately differ; ordinary values only
        return None
    tn = type(resb).__name__
    if tn not in PT.ARRAYS or len(resb) != n or e["name"].startswith("__i"):
        return None
    if any(a.get("kind") in ("unmasked", "overlap") for a in plan["args"]):
        return None
    rt = PT.ARRAYS[tn]
    wc = World(plan)
    arr_args = [i for i, a in enumerate(plan["args"]) if PT.is_array(a["t"])]
    if e["owner"] and 0 not in arr_args:
        return None        # non-array owner: O4's job
    if e["owner"] and PT.ARRAYS[e["owner"]].name.startswith("_"):
        return None        # elements of the basic arrays are Python numbers: Python's own arithmetic is no imath binding
    # documented: the array form of Quat slerp is the shortest-arc interpolation (upstream's test asserts exactly that)
    scalar_name = "slerpShortestArc" if (e["name"] == "slerp" and e["owner"].startswith("Quat")) else e["name"]
    for p in positions[:6]:
        elems = []
        scale = 1.0
        for i, a in enumerate(plan["args"]):
            v = wc.args[i][p] if i in arr_args else wc.args[i]
            elems.append(v)
            tt = PT.ARRAYS.get(a["t"]) or PT.TYPES.get(a["t"])
            if tt is not None and tt.isfloat:
                try:
                    m = max((abs(x) for x in tt.flat(v) if x == x and abs(x) != float("inf")), default=0.0)
                    scale = scale * m if m > 0 else scale      # product of the operands' magnitudes, tiny operands included
                except Exception:  # noqa: BLE001
                    pass
        try:
            if e["owner"]:
                fn = getattr(elems[0], scalar_name, None)
                if fn is None:
                    stats["o3_unavailable"] = stats.get("o3_unavailable", 0) + 1
                    return None
                r1 = fn(*elems[1:])
            else:
                r1 = getattr(imath, e["name"])(*elems)
        except Exception:  # noqa: BLE001 - no scalar overload of that shape
            stats["o3_unavailable"] = stats.get("o3_unavailable", 0) + 1
            return None
        if r1 is NotImplemented:
            stats["o3_unavailable"] = stats.get("o3_unavailable", 0) + 1
            return None
        st = PT.TYPES.get(type(r1).__name__)
        try:
            f1 = st.flat(r1) if st is not None and not st.name.startswith("_") else [r1]
            f2 = rt.flat(resb[p])
            f1 = [float(x) if rt.isfloat else int(x) for x in f1]
        except Exception:  # noqa: BLE001
            stats["o3_unavailable"] = stats.get("o3_unavailable", 0) + 1
            return None
        if len(f1) != len(f2):
            stats["o3_unavailable"] = stats.get("o3_unavailable", 0) + 1
            return None
        stats["o3_checked"] = stats.get("o3_checked", 0) + 1
        if rt.isfloat:
            eps = F32_EPS if rt.base == "f32" else F64_EPS
            if plan["mode"] == "bit":
                # with infinities of both signs among the operands, two valid evaluation orders of a sum give inf or NaN:
                # components that are not finite on either side are not compared in this content mode
                pairs = [(x, y) for x, y in zip(f1, f2) if x == x and y == y and abs(x) != float("inf") and abs(y) != float("inf")]
            else:
                pairs = list(zip(f1, f2))
            ok = all(close_enough(x, y, eps, scale) for x, y in pairs)
        else:
            ok = [int(x) for x in f1] == [int(y) for y in f2]
        if not ok:
            return ("o3-scalar-binding/result", "position %d: array form %r, scalar binding %r" % (p, resb[p], r1))
    return None


def scalar_loop_check(plan, resb, stats):
    """O4: methods of a non-array owner taking one array (Box.extendBy / intersects, FrustumTest.isVisible ...):
    compare with the Python loop over the scalar overload."""
    e = plan["entry"]
    if not e["owner"] or e["owner"] in PT.ARRAYS or len(plan["args"]) != 2 or not PT.is_array(plan["args"][1]["t"]):
        return None
    wc = World(plan)
    owner, arr = wc.args[0], wc.args[1]
    n = len(arr)
    meth = getattr(owner, e["name"])
    tn = type(resb).__name__
    try:
        if tn in PT.ARRAYS and len(resb) == n:
            t = PT.ARRAYS[tn]
            r = Rng(plan["pool"]["sub"])
            for p in sorted(set([0, n - 1] + [r.below(n) for _ in range(24)])):
                v = meth(arr[p])
                stats["o4_checked"] = stats.get("o4_checked", 0) + 1
                if not flat_equal(PT.TYPES.get(type(v).__name__, t).flat(v), t.flat(resb[p])):
                    return ("o4-scalar-loop/result", "position %d: array form %r, scalar form %r" % (p, resb[p], v))
        elif resb is None:
            for p in range(n):
                meth(arr[p])
            stats["o4_checked"] = stats.get("o4_checked", 0) + 1
            return ("state", owner)
    except Exception:  # noqa: BLE001 - no scalar overload of that name
        stats["o4_unavailable"] = stats.get("o4_unavailable", 0) + 1
    return None


def flat_equal(fa, fb):
    """numeric equality of two flattened values (different code paths: NaNs alike, -0 == +0)"""
    if len(fa) != len(fb):
        return False
    for x, y in zip(fa, fb):
        if not (x == y or (x != x and y != y)):
            return False
    return True


def values_equal(tn, a, b):
    """numeric (not bit-wise) equality of two registered scalars; NaN equals NaN"""
    t = PT.TYPES[tn]
    for x, y in zip(t.flat(a), t.flat(b)):
        if not (x == y or (x != x and y != y)):
            return False
    return True


def execute(plan, explicit=None):
    """returns dict(verdict, signature, detail, trace, stats, hash)"""
    e = plan["entry"]
    stats = {}
    out = {"verdict": "ok", "signature": None, "detail": None, "stats": stats}
    h = hashlib.blake2b(digest_size=8)
    h.update(json.dumps(plan, sort_keys=True).encode())

    def fail(sig, detail):
        if out["verdict"] == "ok":
            out["verdict"] = "violation"
            out["signature"] = "semantic/%s/%s" % (sig, run_label(plan))
            out["detail"] = "%s | kinds=%s n=%d mode=%s" % (detail, kinds_label(plan), plan["n"], plan["mode"])

    # A: no pool
    pool_off()
    wa = World(plan)
    ka, ra = run_world(plan, wa)
    # B: simulated pool
    wb = World(plan)
    pool_on(plan["pool"], explicit)
    kb, rb = run_world(plan, wb)
    pool_off()
    trace = pool_trace()
    out["trace"] = trace
    h.update(json.dumps(trace).encode())
    if L.detsim_selfcheck_failures():
        out["verdict"] = "harness"
        out["detail"] = "simulated pool broke its own legal-schedule contract"
        return out
    if explicit is not None and any(d["flags"] & 16 for d in trace):
        out["verdict"] = "explicit-mismatch"
        return out

    # classification / reach
    stats["dispatches"] = len(trace)
    stats["steps"] = sum(len(d["steps"]) for d in trace)
    if ka == "exc" and ra in ("ArgumentError",):
        stats["unsupported_signature"] = 1
    mism = wa.mismatched(plan)
    if ka != kb or (ka == "exc" and ra != rb):
        fail("o1-schedule-independence/outcome", "no pool: %s %s; simulated pool: %s %s" % (ka, ra if ka == "exc" else "", kb, rb if kb == "exc" else ""))
    elif ka == "ok":
        pa, pb = pack_result(ra), pack_result(rb)
        h.update(repr(pa).encode())
        d = diff_result(pa, pb)
        if d:
            fail("o1-schedule-independence/result-" + d, "result differs between no pool and the simulated pool")
        sa, sb = wa.state(), wb.state()
        h.update(repr(sa).encode())
        for (la, xa), (lb, xb) in zip(sa, sb):
            if xa != xb:
                fail("o1-schedule-independence/post-state-" + ("zero-sign-only" if only_zero_sign(xa, xb) else "value"),
                     "%s differs between no pool and the simulated pool" % la)
                break
        # the non-array owner (Box.extendBy ...) is state too
        if e["owner"] and e["owner"] not in PT.ARRAYS and e["owner"] in PT.TYPES:
            t = PT.TYPES[e["owner"]]
            xa, xb = t.pack(wa.args[0]), t.pack(wb.args[0])
            if xa != xb:
                fail("o1-schedule-independence/owner-state-" + ("zero-sign-only" if only_zero_sign(xa, xb) else "value"),
                     "%r (no pool) vs %r (simulated pool)" % (wa.args[0], wb.args[0]))
        if mism and (type(rb).__name__ in PT.ARRAYS or rb is None) and trace:
            fail("o6-length-mismatch/accepted", "argument arrays of different length were accepted by a dispatched operation")
        if any(a.get("kind") == "overlap" for a in plan["args"]):
            stats["probe.inplace_operand_overlaps_destination"] = 1
        if out["verdict"] == "ok" and not mism:
            n = plan["n"]
            bad = element_check(plan, wb, rb, o2_positions(plan, trace, n), stats)
            if bad:
                fail(bad[0], bad[1])
            if out["verdict"] == "ok":
                bad3 = scalar_binding_check(plan, wb, rb, o2_positions(plan, trace, n), stats)
                if bad3:
                    fail(bad3[0], bad3[1])
            if out["verdict"] == "ok":
                o4 = scalar_loop_check(plan, rb, stats)
                if o4 and o4[0] == "state":
                    if e["owner"] in PT.TYPES and not values_equal(e["owner"], o4[1], wb.args[0]):
                        fail("o4-scalar-loop/owner-state", "array form leaves %r, the loop over the scalar form %r" % (wb.args[0], o4[1]))
                elif o4:
                    fail(o4[0], o4[1])
    else:
        stats["raised"] = 1
        h.update(str(ra).encode())
        if mism:
            stats["probe.length_mismatch_raised"] = 1

    # reach counters
    cfg = plan["pool"]
    fired = stats
    for d in trace:
        st = d["steps"]
        if d["flags"] & 1:
            fired["fault.inline_fallback"] = fired.get("fault.inline_fallback", 0) + 1
            continue
        if d["flags"] & 2:
            fired["fault.exception_in_worker"] = fired.get("fault.exception_in_worker", 0) + 1
        if d["flags"] & 4:
            fired["fault.cancel_after_exception"] = fired.get("fault.cancel_after_exception", 0) + 1
        if any(s[0] == s[1] for s in st):
            fired["fault.empty_subrange"] = fired.get("fault.empty_subrange", 0) + 1
        real = [s for s in st if s[1] > s[0]]
        if len(real) == 1:
            fired["fault.single_chunk"] = fired.get("fault.single_chunk", 0) + 1
        if len(real) >= 100:
            fired["fault.max_chunks"] = fired.get("fault.max_chunks", 0) + 1
        starts = [s[0] for s in real]
        if len(real) > 1 and starts == sorted(starts, reverse=True):
            fired["fault.reverse_order"] = fired.get("fault.reverse_order", 0) + 1
        elif len(real) > 1 and starts != sorted(starts):
            fired["fault.out_of_order"] = fired.get("fault.out_of_order", 0) + 1
        if len(real) > 1 and real[-1][0] == 0:
            fired["fault.straggler_first_chunk_last"] = fired.get("fault.straggler_first_chunk_last", 0) + 1
        tids = set(s[2] for s in real)
        if len(real) > 1 and len(tids) == 1:
            fired["fault.one_tid"] = fired.get("fault.one_tid", 0) + 1
        if len(tids) > 1:
            fired["fault.multi_thread"] = fired.get("fault.multi_thread", 0) + 1
        if real and sorted(real)[0][2] != 0:
            fired["fault.tid_permutation"] = fired.get("fault.tid_permutation", 0) + 1
        if d["W"] >= 13:
            fired["fault.many_workers"] = fired.get("fault.many_workers", 0) + 1
        if d["W"] == 1:
            fired["fault.one_worker"] = fired.get("fault.one_worker", 0) + 1
        sizes = [s[1] - s[0] for s in real]
        if sizes and max(sizes) > 8 * max(1, min(sizes)):
            fired["fault.uneven"] = fired.get("fault.uneven", 0) + 1
    if plan["n"] <= T and not trace:
        fired["probe.below_threshold_inline"] = 1
    kinds = [a.get("kind") for a in plan["args"]]
    if kinds.count("masked") >= 2:
        fired["probe.masked_x_masked"] = 1
    if "unmasked" in kinds:
        fired["probe.masked_lhs_unmasked_rhs"] = 1
    if "alias" in kinds:
        fired["probe.same_object_twice"] = 1
    if "readonly" in kinds:
        fired["probe.readonly_operand"] = 1
    if "strided" in kinds:
        fired["probe.strided_operand"] = 1
    if any(a.get("elemref") for a in plan["args"]):
        fired["probe.scalar_is_element_reference_of_an_operand"] = 1
    if any(a.get("ro") for a in plan["args"]):
        fired["probe.view_of_readonly_array_as_operand"] = 1
    out["hash"] = h.hexdigest()
    return out


def schedule_hash(trace):
    h = hashlib.blake2b(digest_size=8)
    for d in trace:
        h.update(("%d|%d|" % (d["len"], d["W"])).encode())
        h.update(json.dumps(d["steps"]).encode())
    return h.hexdigest()


# ---------------------------------------------------------------------------------------------------
def batch():
    out = sys.stdout
    tasks_seen = set()
    for line in sys.stdin:
        parts = line.split()
        if len(parts) < 3:
            continue
        base, lo, hi = int(parts[0]), int(parts[1]), int(parts[2])
        agg = {}
        sched = []
        newtasks = []
        chunk_hash = hashlib.blake2b(digest_size=8)
        entries = {}
        for idx in range(lo, hi):
            seed = mix(base, 20, idx)
            plan = gen_plan(seed, idx)
            lab = entry_label(plan["entry"])
            out.write("BEGIN %d %d %s\n" % (idx, seed, run_label(plan)))
            out.flush()
            res = execute(plan)
            for k, v in res["stats"].items():
                agg[k] = agg.get(k, 0) + v
            agg["runs"] = agg.get("runs", 0) + 1
            tr = res.get("trace") or []
            if tr:
                agg["runs_dispatched"] = agg.get("runs_dispatched", 0) + 1
                sched.append(schedule_hash(tr))
                entries[lab] = entries.get(lab, 0) + 1
                for d in tr:
                    if d["task"] not in tasks_seen:
                        tasks_seen.add(d["task"])
                        newtasks.append(d["task"])
            chunk_hash.update((res.get("hash") or "-").encode())
            if res["verdict"] != "ok":
                out.write("END %d %s %s\n" % (idx, res["verdict"], json.dumps({"signature": res["signature"], "detail": res["detail"]})))
            else:
                out.write("END %d ok %s\n" % (idx, res.get("hash")))
        out.write("STATS %d %s\n" % (lo, json.dumps({"agg": agg, "sched": sched, "tasks": newtasks, "hash": chunk_hash.hexdigest(), "entries": entries,
                                                      "sets": {"dispatch_threshold": [T]}})))
        out.write("DONE %d\n" % lo)
        out.flush()


def run_plan_file(path):
    with open(path) as f:
        doc = json.load(f)
    plan = doc["plan"]
    explicit = doc.get("schedule")
    print("BEGIN 0 0 %s" % run_label(plan), flush=True)
    res = execute(plan, explicit)
    print("RESULT " + json.dumps({"verdict": res["verdict"], "signature": res["signature"], "detail": res["detail"],
                                  "trace": res.get("trace"), "hash": res.get("hash")}), flush=True)


if __name__ == "__main__":
    if sys.argv[1] == "--batch":
        batch()
    elif sys.argv[1] == "--plan":
        run_plan_file(sys.argv[2])
    elif sys.argv[1] == "--run":
        idx = int(sys.argv[3])
        plan = gen_plan(mix(int(sys.argv[2]), 20, idx), idx)
        print("PLAN " + json.dumps(plan), flush=True)
        print("BEGIN %d 0 %s" % (idx, run_label(plan)), flush=True)
        res = execute(plan)
        print("RESULT " + json.dumps({"verdict": res["verdict"], "signature": res["signature"], "detail": res["detail"],
                                      "trace": res.get("trace"), "hash": res.get("hash")}), flush=True)
    elif sys.argv[1] == "--embed":
        with open(sys.argv[2]) as f:
            doc = json.load(f)
        print("EMBEDDED " + json.dumps(embed_contents(doc["plan"])))
    elif sys.argv[1] == "--gen":
        seed = mix(int(sys.argv[2]), 20, int(sys.argv[3]))
        print(json.dumps(gen_plan(seed, int(sys.argv[3]))))
    elif sys.argv[1] == "--catalogue":
        print(len(CAT))
        for e in CAT:
            print(entry_label(e), "->", e["ret"], "self=" + (e["args"][0] if e["owner"] else "-"))
