"""The one PRNG of the Python-side simulators: xoshiro256** seeded through splitmix64.

Pure Python on purpose (not `random`): the stream is a function of the seed only, identical across
interpreter versions, PYTHONHASHSEED values and worker processes.  sim/c18/sim18.cpp carries the
identical generator in C++.
"""
M64 = (1 << 64) - 1


def splitmix64(x):
    x = (x + 0x9E3779B97F4A7C15) & M64
    z = x
    z = ((z ^ (z >> 30)) * 0xBF58476D1CE4E5B9) & M64
    z = ((z ^ (z >> 27)) * 0x94D049BB133111EB) & M64
    return x, z ^ (z >> 31)


def mix(*parts):
    """Derive a 64-bit seed from a tuple of integers (base seed, property tag, run index, ...)."""
    x = 0x1234567
    out = 0
    for p in parts:
        x = (x ^ (p & M64)) & M64
        x, out = splitmix64(x)
        x ^= out
    return out


class Rng:
    __slots__ = ("s", "draws")

    def __init__(self, seed):
        x = seed & M64
        s = []
        for _ in range(4):
            x, z = splitmix64(x)
            s.append(z)
        self.s = s
        self.draws = 0

    def next(self):
        s0, s1, s2, s3 = self.s
        r = (s1 * 5) & M64
        r = ((r << 7) | (r >> 57)) & M64
        r = (r * 9) & M64
        t = (s1 << 17) & M64
        s2 ^= s0
        s3 ^= s1
        s1 ^= s2
        s0 ^= s3
        s2 ^= t
        s3 = ((s3 << 45) | (s3 >> 19)) & M64
        self.s = [s0, s1, s2, s3]
        self.draws += 1
        return r

    def below(self, n):
        """uniform integer in [0, n) (n >= 1); the tiny modulo bias is irrelevant here."""
        return self.next() % n

    def range(self, lo, hi):
        """uniform integer in [lo, hi] inclusive."""
        return lo + self.next() % (hi - lo + 1)

    def chance(self, p):
        return (self.next() >> 11) * (1.0 / (1 << 53)) < p

    def unit(self):
        return (self.next() >> 11) * (1.0 / (1 << 53))

    def choice(self, seq):
        return seq[self.next() % len(seq)]

    def weighted(self, pairs):
        """pairs: [(weight:int, value), ...]"""
        tot = 0
        for w, _ in pairs:
            tot += w
        k = self.next() % tot
        for w, v in pairs:
            if k < w:
                return v
            k -= w
        return pairs[-1][1]

    def shuffle(self, lst):
        for i in range(len(lst) - 1, 0, -1):
            j = self.next() % (i + 1)
            lst[i], lst[j] = lst[j], lst[i]

    def subset(self, seq, p):
        return [x for x in seq if self.chance(p)]


def fnv1a(data, h=0xcbf29ce484222325):
    for b in data:
        h ^= b
        h = (h * 0x100000001b3) & M64
    return h
