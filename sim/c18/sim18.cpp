// C18 simulator: interleaved clients of the rand48 family / Rand32 / Rand48 / samplers against
// a reference model (48-bit integer LCG + glibc's rand48 functions in lock-step).
//
// Real code: libImath built from /repo (ImathRandom.cpp) + ImathRandom.h templates.
// Simulated: the clients, the scheduler that interleaves them, the adversarial generator that is
// plugged into the samplers' `Rand` template parameter.
//
// Modes
//   sim18 --gen <seed>            print the plan generated from <seed>
//   sim18 --plan <file>           interpret a plan; prints "OK <hash> ..." or "FAIL <signature> | detail"
//   sim18 --batch                 read "base lo hi" lines; run seeds mix(base,18,i), i in [lo,hi)
//
// One run = generate(seed) -> plan (explicit, textual) -> interpret(plan).  The interpreter draws
// nothing from any PRNG: a plan is a complete, replayable execution.

#include <ImathRandom.h>
#include <ImathVec.h>

#include <cinttypes>
#include <cmath>
#include <cstdio>
#include <cstdlib>
#include <cstring>
#include <condition_variable>
#include <functional>
#include <map>
#include <mutex>
#include <thread>
#include <set>
#include <sstream>
#include <string>
#include <vector>

// glibc reference (global namespace)
extern "C" {
double   erand48 (unsigned short xsubi[3]);
long int nrand48 (unsigned short xsubi[3]);
double   drand48 (void);
long int lrand48 (void);
void     srand48 (long int seedval);
}

using namespace IMATH_NAMESPACE;

// ------------------------------------------------------------------------------------------------
// PRNG (identical to sim/prng.py)
// ------------------------------------------------------------------------------------------------
static inline uint64_t splitmix64 (uint64_t& x)
{
    x += 0x9E3779B97F4A7C15ULL;
    uint64_t z = x;
    z = (z ^ (z >> 30)) * 0xBF58476D1CE4E5B9ULL;
    z = (z ^ (z >> 27)) * 0x94D049BB133111EBULL;
    return z ^ (z >> 31);
}
static uint64_t mix3 (uint64_t a, uint64_t b, uint64_t c)
{
    uint64_t x = 0x1234567, out = 0;
    uint64_t parts[3] = {a, b, c};
    for (int i = 0; i < 3; i++)
    {
        x ^= parts[i];
        out = splitmix64 (x);
        x ^= out;
    }
    return out;
}
struct Rng
{
    uint64_t s[4];
    explicit Rng (uint64_t seed)
    {
        uint64_t x = seed;
        for (int i = 0; i < 4; i++) s[i] = splitmix64 (x);
    }
    static inline uint64_t rotl (uint64_t v, int k) { return (v << k) | (v >> (64 - k)); }
    uint64_t next ()
    {
        uint64_t r = rotl (s[1] * 5, 7) * 9, t = s[1] << 17;
        s[2] ^= s[0]; s[3] ^= s[1]; s[1] ^= s[2]; s[0] ^= s[3]; s[2] ^= t; s[3] = rotl (s[3], 45);
        return r;
    }
    uint64_t below (uint64_t n) { return next () % n; }
    int      range (int lo, int hi) { return lo + int (next () % uint64_t (hi - lo + 1)); }
    bool     chance (double p) { return double (next () >> 11) * (1.0 / 9007199254740992.0) < p; }
    double   unit () { return double (next () >> 11) * (1.0 / 9007199254740992.0); }
};

static inline uint64_t fnv (uint64_t h, uint64_t v)
{
    for (int i = 0; i < 8; i++)
    {
        h ^= (v >> (8 * i)) & 0xff;
        h *= 0x100000001b3ULL;
    }
    return h;
}
static const uint64_t FNV0 = 0xcbf29ce484222325ULL;

// ------------------------------------------------------------------------------------------------
// Reference model
// ------------------------------------------------------------------------------------------------
static const uint64_t MASK48 = (1ULL << 48) - 1;
static const uint64_t LCG_A  = 0x5DEECE66DULL;
static const uint64_t LCG_C  = 0xBULL;
static inline uint64_t lcgNext (uint64_t x) { return (LCG_A * x + LCG_C) & MASK48; }
static uint64_t lcgInvA ()
{
    // inverse of the (odd) multiplier modulo 2^48 by Newton iteration
    uint64_t inv = LCG_A;
    for (int i = 0; i < 6; i++) inv *= 2 - LCG_A * inv;
    return inv & MASK48;
}
static inline uint64_t lcgPrev (uint64_t y) { return (lcgInvA () * ((y - LCG_C) & MASK48)) & MASK48; }
static inline uint64_t pack (const unsigned short s[3]) { return (uint64_t (s[2]) << 32) | (uint64_t (s[1]) << 16) | s[0]; }
static inline void     unpack (uint64_t x, unsigned short s[3]) { s[0] = x & 0xffff; s[1] = (x >> 16) & 0xffff; s[2] = (x >> 32) & 0xffff; }

static inline uint64_t dbits (double d) { uint64_t u; memcpy (&u, &d, 8); return u; }
static inline uint64_t fbits (float f) { uint32_t u; memcpy (&u, &f, 4); return u; }

// ------------------------------------------------------------------------------------------------
// Plan
// ------------------------------------------------------------------------------------------------
struct ScriptOp
{
    std::string op;   // nextb nexti nextf nextfr solid hollow gsphere gauss init fork
    std::string vec;  // V2f V3f V2d V3d for samplers
    double      a = 0, b = 0;
    uint64_t    seed = 0;
};
struct Pair
{
    int                   id;
    std::string           kind; // R48 | R32
    uint64_t              seed;
    std::vector<ScriptOp> script;
};
struct EClient { int id; unsigned short s[3]; bool boundary; };
struct Step
{
    char        type;     // 's' client op, 't' twin step, 'a' adversarial sampler
    int         id = 0;   // client id / pair id
    int         side = 0; // twin side
    std::string op;       // E: erand nrand restart set ; G: drand lrand srand
    long        seed = 0; // srand
    unsigned short set[3] = {0, 0, 0};
    // adversarial
    std::string sampler, vec, gen;
    uint64_t    aseed = 0;
    std::vector<std::string> forced; // "P" or hex double
};
struct Plan
{
    long                 globalSeed = 0;
    int                  threads = 1;           // OS threads the clients are spread over (1 = all on the main thread)
    std::map<int, int>   affinity;              // scheduler id of a client -> thread index (absent = 0 = main)
    std::vector<int>     boundaryPairs;         // generation-time note only (not part of the plan text)
    std::vector<EClient> e;
    std::vector<int>     g;
    std::vector<Pair>    pairs;
    std::vector<Step>    steps;
};

static std::string hexd (double d) { char b[64]; snprintf (b, sizeof b, "%a", d); return b; }

static std::string planText (const Plan& p)
{
    std::ostringstream o;
    o << "global " << p.globalSeed << "\n";
    if (p.threads > 1)
    {
        o << "threads " << p.threads;
        for (auto& kv : p.affinity) o << " " << kv.first << ":" << kv.second;
        o << "\n";
    }
    for (auto& c : p.e) o << "E " << c.id << " " << c.s[0] << " " << c.s[1] << " " << c.s[2] << (c.boundary ? " b" : "") << "\n";
    for (int id : p.g) o << "G " << id << "\n";
    for (auto& q : p.pairs)
    {
        o << "P " << q.id << " " << q.kind << " " << q.seed << " :";
        for (auto& s : q.script)
        {
            o << " " << s.op;
            if (s.op == "nextfr") o << ":" << hexd (s.a) << ":" << hexd (s.b);
            else if (s.op == "solid" || s.op == "hollow" || s.op == "gsphere") o << ":" << s.vec;
            else if (s.op == "init") o << ":" << s.seed;
        }
        o << "\n";
    }
    for (auto& s : p.steps)
    {
        if (s.type == 's')
        {
            o << "s " << s.id << " " << s.op;
            if (s.op == "srand") o << " " << s.seed;
            if (s.op == "set") o << " " << s.set[0] << " " << s.set[1] << " " << s.set[2];
            o << "\n";
        }
        else if (s.type == 't') o << "t " << s.id << " " << s.side << "\n";
        else
        {
            o << "a " << s.sampler << " " << s.vec << " " << s.gen << " " << s.aseed;
            for (auto& f : s.forced) o << " " << f;
            o << "\n";
        }
    }
    return o.str ();
}

static bool parsePlan (const std::string& text, Plan& p, std::string& err)
{
    std::istringstream in (text);
    std::string        line;
    while (std::getline (in, line))
    {
        if (line.empty () || line[0] == '#') continue;
        std::istringstream l (line);
        std::string        t;
        l >> t;
        if (t == "global") l >> p.globalSeed;
        else if (t == "threads")
        {
            l >> p.threads;
            std::string tok;
            while (l >> tok)
            {
                size_t c = tok.find (':');
                if (c != std::string::npos) p.affinity[atoi (tok.substr (0, c).c_str ())] = atoi (tok.substr (c + 1).c_str ());
            }
        }
        else if (t == "E")
        {
            EClient c; std::string b;
            l >> c.id >> c.s[0] >> c.s[1] >> c.s[2];
            c.boundary = bool (l >> b);
            p.e.push_back (c);
        }
        else if (t == "G") { int id; l >> id; p.g.push_back (id); }
        else if (t == "P")
        {
            Pair q; std::string colon, tok;
            l >> q.id >> q.kind >> q.seed >> colon;
            while (l >> tok)
            {
                ScriptOp s;
                size_t   c1 = tok.find (':');
                s.op        = tok.substr (0, c1);
                if (c1 != std::string::npos)
                {
                    std::string rest = tok.substr (c1 + 1);
                    if (s.op == "nextfr")
                    {
                        size_t c2 = rest.find (':');
                        s.a = strtod (rest.substr (0, c2).c_str (), nullptr);
                        s.b = strtod (rest.substr (c2 + 1).c_str (), nullptr);
                    }
                    else if (s.op == "init") s.seed = strtoull (rest.c_str (), nullptr, 10);
                    else s.vec = rest;
                }
                q.script.push_back (s);
            }
            p.pairs.push_back (q);
        }
        else if (t == "s")
        {
            Step s; s.type = 's';
            l >> s.id >> s.op;
            if (s.op == "srand") l >> s.seed;
            if (s.op == "set") l >> s.set[0] >> s.set[1] >> s.set[2];
            p.steps.push_back (s);
        }
        else if (t == "t") { Step s; s.type = 't'; l >> s.id >> s.side; p.steps.push_back (s); }
        else if (t == "a")
        {
            Step s; s.type = 'a'; std::string f;
            l >> s.sampler >> s.vec >> s.gen >> s.aseed;
            while (l >> f) s.forced.push_back (f);
            p.steps.push_back (s);
        }
        else { err = "bad plan line: " + line; return false; }
    }
    return true;
}

// ------------------------------------------------------------------------------------------------
// Generation (the only place the PRNG is used)
// ------------------------------------------------------------------------------------------------
static const char* VECS[] = {"V2f", "V3f", "V2d", "V3d", "V4f", "V4d"};

static double pickBound (Rng& r, bool isFloat)
{
    static const double fixed[] = {0.0, 1.0, -1.0, 0.5, -0.5, 2.0, 100.0, -100.0, 1e-3, 3.0};
    if (r.chance (0.5)) { double v = fixed[r.below (10)]; return isFloat ? double (float (v)) : v; }
    double m = ldexp (1.0 + r.unit (), r.range (isFloat ? -30 : -90, isFloat ? 30 : 90));
    if (isFloat) m = double (float (m));
    return r.chance (0.5) ? m : -m;
}

static uint64_t boundaryState (Rng& r)
{
    // states whose *successor* is extreme: the first draw from this client then produces the
    // smallest / largest / limb-boundary outputs instead of waiting 2^48 draws for them
    static const uint64_t succ[] = {0ULL, MASK48, 1ULL << 47, (1ULL << 47) - 1, 0xFFFFULL, 0xFFFF0000ULL,
                                    0xFFFF00000000ULL, 0x0000FFFFFFFFULL, 0xFFFFFFFF0000ULL, 1ULL,
                                    0x1FFFEULL, 0x7FFFFFFF0000ULL, 0x800000000000ULL | 0xFFFFULL,
                                    (1ULL << 44) - 1, 1ULL << 44, 0xFFFFFFFFFFFEULL};
    uint64_t y = succ[r.below (sizeof succ / sizeof succ[0])];
    int back = r.range (1, 3);
    for (int i = 0; i < back; i++) y = lcgPrev (y);
    return y;
}

static Plan generate (uint64_t seed)
{
    Rng  r (seed);
    Plan p;
    // swarm configuration
    int  nE = r.range (0, 3), nG = r.range (0, 3), nP = r.range (0, 3);
    if (nE + nG + nP == 0) nE = 1;
    bool enReseed = r.chance (0.5), enFork = r.chance (0.5), enRestart = r.chance (0.5), enSet = r.chance (0.3);
    bool enAdv = r.chance (0.4), enSamplers = r.chance (0.7), enBoundary = r.chance (0.6);
    int  nSteps = r.chance (0.2) ? r.range (100, 400) : r.range (4, 60);
    static const long gseeds[] = {0, 1, -1, 0x7fffffffL, 0x80000000L, 0xffffffffL, 0x100000000L, 0x123456789abcL, -0x80000000L, 0x330eL};
    auto pickSeed = [&] () -> long { return r.chance (0.4) ? gseeds[r.below (10)] : long (r.next ()); };
    p.globalSeed  = pickSeed ();
    int nextId    = 0;
    for (int i = 0; i < nE; i++)
    {
        EClient c; c.id = nextId++;
        c.boundary = enBoundary && r.chance (0.6);
        uint64_t x = c.boundary ? boundaryState (r) : (r.next () & MASK48);
        unpack (x, c.s);
        p.e.push_back (c);
    }
    for (int i = 0; i < nG; i++) p.g.push_back (nextId++);
    for (int i = 0; i < nP; i++)
    {
        Pair q; q.id = i;
        q.kind = r.chance (0.6) ? "R48" : "R32";
        q.seed = r.chance (0.3) ? uint64_t (r.below (4)) : r.next ();
        int n  = r.range (1, 40);
        for (int k = 0; k < n; k++)
        {
            ScriptOp s;
            int      w = r.below (100);
            bool     f32 = q.kind == "R32";
            if (w < 15) s.op = "nextb";
            else if (w < 30) s.op = "nexti";
            else if (w < 45) s.op = "nextf";
            else if (w < 60)
            {
                s.op = "nextfr"; s.a = pickBound (r, f32); s.b = pickBound (r, f32);
                if (r.chance (0.2))
                {
                    // wide ranges: bounds of opposite sign up to the largest finite value (the interval is
                    // representable although its width is not); in either order
                    const double mx = f32 ? double (3.4028234663852886e+38f) : 1.7976931348623157e+308;
                    static const double frac[] = {1.0, 1.0, 0.75, 0.5, 0.25, 1e-3};
                    double x = mx * frac[r.below (6)], y = mx * frac[r.below (6)];
                    if (f32) { x = double (float (x)); y = double (float (y)); }
                    s.a = -x; s.b = y;
                    if (r.chance (0.5)) std::swap (s.a, s.b);
                }
            }
            else if (w < 85 && enSamplers)
            {
                int k2 = r.below (4);
                s.op   = k2 == 0 ? "solid" : k2 == 1 ? "hollow" : k2 == 2 ? "gsphere" : "gauss";
                s.vec  = VECS[r.below (6)];
            }
            else if (w < 90 && enReseed) { s.op = "init"; s.seed = r.chance (0.5) ? q.seed : r.next (); }
            else if (w < 95 && enFork) s.op = "fork";
            else s.op = "nexti";
            q.script.push_back (s);
        }
        if (q.kind == "R32" && enBoundary && r.chance (0.4))
        {
            // boundary seed: chosen so that the generator state at draw k+1 has an extreme low 23 bits (all ones, all
            // zeros, 0x400000) - the values nextf() is built from.  The constants of Rand32 are used only to *find*
            // interesting seeds, never as an oracle: if they change, these are simply ordinary seeds.
            auto inv64 = [] (uint64_t a) { uint64_t x = a; for (int i = 0; i < 6; i++) x *= 2 - a * x; return x; };
            uint64_t low = r.chance (0.6) ? 0x7fffffULL : (r.chance (0.5) ? 0ULL : 0x400000ULL);
            uint64_t st  = ((r.next () & 0xffffffffULL) & ~0x7fffffULL) | low;
            int      k   = r.range (0, 2);
            for (int i = 0; i <= k; i++) st = (st - 1013904223ULL) * inv64 (1664525ULL);
            q.seed = (st ^ 0x5a5a5a5aULL) * inv64 (0xa5a573a5ULL);
            while (int (q.script.size ()) < k + 2) q.script.push_back (ScriptOp ());
            for (int i = 0; i < k; i++) { q.script[i] = ScriptOp (); q.script[i].op = (i & 1) ? "nextb" : "nexti"; }
            q.script[k] = ScriptOp (); q.script[k].op = "nextf";
            for (auto& so : q.script) if (so.op.empty ()) so.op = "nexti";
            p.boundaryPairs.push_back (q.id);
        }
        p.pairs.push_back (q);
    }
    // strictly sequential hand-off between OS threads: the clients are spread over 1-3 real threads that the
    // simulator parks and releases one at a time (POSIX rand48 state is per process, not per thread)
    if (r.chance (0.35))
    {
        p.threads = r.range (2, 3);
        for (auto& c : p.e) p.affinity[c.id] = int (r.below (p.threads));
        for (int id : p.g) p.affinity[id] = int (r.below (p.threads));
        for (auto& q : p.pairs) { p.affinity[1000 + 2 * q.id] = int (r.below (p.threads)); p.affinity[1000 + 2 * q.id + 1] = int (r.below (p.threads)); }
        p.affinity[5000] = int (r.below (p.threads));
    }
    // the schedule: who takes the next step, and what it does
    std::vector<int> weights; // index into a flat client table
    struct Ref { char t; int idx; };
    std::vector<Ref> refs;
    for (int i = 0; i < nE; i++) refs.push_back ({'E', i});
    for (int i = 0; i < nG; i++) refs.push_back ({'G', i});
    for (int i = 0; i < nP; i++) { refs.push_back ({'A', i}); refs.push_back ({'B', i}); }
    if (enAdv) refs.push_back ({'X', 0});
    bool bursty = r.chance (0.3);
    int  cur    = int (r.below (refs.size ()));
    for (int k = 0; k < nSteps; k++)
    {
        if (!bursty || r.chance (0.3)) cur = int (r.below (refs.size ()));
        Ref  c = refs[cur];
        Step s;
        if (c.t == 'E')
        {
            s.type = 's'; s.id = p.e[c.idx].id;
            int w = r.below (100);
            if (w < 45) s.op = "erand";
            else if (w < 90) s.op = "nrand";
            else if (w < 95 && enRestart) s.op = "restart";
            else if (enSet)
            {
                s.op = "set";
                uint64_t x = enBoundary && r.chance (0.7) ? boundaryState (r) : (r.next () & MASK48);
                unpack (x, s.set);
            }
            else s.op = "nrand";
        }
        else if (c.t == 'G')
        {
            s.type = 's'; s.id = p.g[c.idx];
            int w = r.below (100);
            if (w < 45) s.op = "drand";
            else if (w < 90) s.op = "lrand";
            else if (enReseed) { s.op = "srand"; s.seed = pickSeed (); }
            else s.op = "lrand";
        }
        else if (c.t == 'X')
        {
            s.type = 'a';
            int k2 = r.below (4);
            s.sampler = k2 == 0 ? "solid" : k2 == 1 ? "hollow" : k2 == 2 ? "gsphere" : "gauss";
            s.vec     = VECS[r.below (6)];
            s.gen     = r.chance (0.5) ? "R48" : "R32";
            s.aseed   = r.next ();
            int nf    = r.range (1, 12);
            // Forced values stay on the lattice of values the shipped generators can return from
            // nextf(-1,1) in a single call (Rand32: k*2^-22-1; Rand48: 2f-1 with f = x*2^-48 + (x>>44)*2^-52);
            // only the correlation between consecutive draws is given up.  So the adversary is a legal
            // generator per the documented Rand interface, and never feeds values (denormals, +1.0) that
            // no conforming nextf(-1,1) of this library produces.
            auto lattice = [&] () -> double {
                if (s.gen == "R32")
                {
                    static const uint32_t ks[] = {0, 1, 1u << 22, (1u << 22) + 1, (1u << 22) - 1, (1u << 23) - 1, 3u << 21, 1u << 21,
                                                  6710886 /* ~0.6 */, 7549747 /* ~0.8 */, 7160177 /* ~0.7071 */, 1228431 /* ~-0.7071 */};
                    uint32_t k = r.chance (0.8) ? ks[r.below (12)] : uint32_t (r.below (1u << 23));
                    return double (k) * 0x1p-22 - 1.0;
                }
                static const uint64_t xs[] = {0, 1, 1ULL << 47, (1ULL << 47) - 1, (1ULL << 47) + 1, MASK48, 3ULL << 46, 1ULL << 46,
                                              0xCCCCCCCCCCCDULL /* ~0.6 */, 0xE66666666666ULL /* ~0.8 */, 0xDA827999FCEFULL /* ~0.7071 */, 0x257D86660311ULL};
                uint64_t x = r.chance (0.8) ? xs[r.below (12)] : (r.next () & MASK48);
                double   f = std::ldexp (double (x), -48) + std::ldexp (double (x >> 44), -52);
                return 2 * f - 1;
            };
            for (int i = 0; i < nf; i++)
                s.forced.push_back (r.chance (0.25) ? std::string ("P") : hexd (lattice ()));
        }
        else
        {
            s.type = 't'; s.id = c.idx; s.side = c.t == 'A' ? 0 : 1;
        }
        p.steps.push_back (s);
    }
    return p;
}

// ------------------------------------------------------------------------------------------------
// Interpretation
// ------------------------------------------------------------------------------------------------
struct Stats
{
    std::map<std::string, uint64_t> c;
    void inc (const std::string& k, uint64_t n = 1) { c[k] += n; }
};

struct Violation { std::string sig, detail; int step; };

struct Outcome
{
    bool        ok = true;
    Violation   v;
    uint64_t    hash = FNV0;      // trace hash (every op, every output)
    uint64_t    ihash = FNV0;     // interleaving hash (client kind, entry point) sequence
    uint64_t    steps = 0;
};

// Rand wrapper that counts draws, so that a sampler's rejections become observable (real generator inside)
template <class R> struct Counting
{
    R&  r; int n = 0;
    explicit Counting (R& rr) : r (rr) {}
    auto nextf (double a, double b) -> decltype (r.nextf (a, b)) { n++; return r.nextf (a, b); }
    // the rest of the generator interface, should a sampler use it (none does today)
    auto nextf () -> decltype (r.nextf ()) { n++; return r.nextf (); }
    auto nexti () -> decltype (r.nexti ()) { n++; return r.nexti (); }
    bool nextb () { n++; return r.nextb (); }
};
// Adversarial generator for the samplers' Rand parameter: legal values of nextf(-1,1) chosen by the plan
// (the documented range is [rangeMin, rangeMax[ ; forced values are clamped into it by the generator of
// plans only listing values in [-1,1) -- +1.0 is included deliberately rarely? no: it is excluded below)
template <class R> struct Adversarial
{
    R r; const std::vector<std::string>& forced; size_t pos = 0; int n = 0; int nforced = 0;
    Adversarial (uint64_t seed, const std::vector<std::string>& f) : r (seed), forced (f) {}
    auto nextf (double a, double b) -> decltype (r.nextf (a, b))
    {
        typedef decltype (r.nextf (a, b)) T;
        n++;
        if (pos < forced.size ())
        {
            const std::string& f = forced[pos++];
            if (f != "P")
            {
                double v = strtod (f.c_str (), nullptr);
                if (v >= b) v = std::nextafter (T (b), T (a)); // stay inside [a,b[
                if (v < a) v = a;
                nforced++;
                return T (v);
            }
        }
        return r.nextf (a, b);
    }
    // the rest of the generator interface, should a sampler use it (none does today): nextf() takes the forced
    // value of nextf(-1,1) mapped back to [0,1[ (f = (v+1)/2 is exact), the integer draws pass through
    auto nextf () -> decltype (r.nextf ())
    {
        typedef decltype (r.nextf ()) T;
        return T ((double (nextf (-1.0, 1.0)) + 1.0) / 2.0);
    }
    auto nexti () -> decltype (r.nexti ()) { n++; return r.nexti (); }
    bool nextb () { n++; return r.nextb (); }
};

template <class V> struct VecInfo;
template <> struct VecInfo<V2f> { static constexpr double eps = 1.1920929e-07; };
template <> struct VecInfo<V3f> { static constexpr double eps = 1.1920929e-07; };
template <> struct VecInfo<V2d> { static constexpr double eps = 2.220446049250313e-16; };
template <> struct VecInfo<V3d> { static constexpr double eps = 2.220446049250313e-16; };
template <> struct VecInfo<V4f> { static constexpr double eps = 1.1920929e-07; };
template <> struct VecInfo<V4d> { static constexpr double eps = 2.220446049250313e-16; };

template <class V> static double exactLen2 (const V& v)
{
    long double s = 0;
    for (unsigned i = 0; i < V::dimensions (); i++) s += (long double) v[i] * (long double) v[i];
    return double (s);
}
template <class V> static bool finiteVec (const V& v)
{
    for (unsigned i = 0; i < V::dimensions (); i++) if (!std::isfinite (double (v[i]))) return false;
    return true;
}

// runs one sampler on generator g; appends output bit patterns to out; returns "" or a violation tag
template <class V, class G> static std::string runSampler (const std::string& s, G& g, std::vector<uint64_t>& out)
{
    const double eps = VecInfo<V>::eps;
    char buf[256];
    if (s == "gauss")
    {
        float x = gaussRand (g);
        out.push_back (fbits (x));
        if (!std::isfinite (x)) { snprintf (buf, sizeof buf, "gaussRand/not-finite"); return buf; }
        return "";
    }
    V v;
    if (s == "solid") v = solidSphereRand<V> (g);
    else if (s == "hollow") v = hollowSphereRand<V> (g);
    else v = gaussSphereRand<V> (g);
    for (unsigned i = 0; i < V::dimensions (); i++) out.push_back (dbits (double (v[i])));
    if (!finiteVec (v)) return s + "SphereRand/not-finite";
    double l2 = exactLen2 (v);
    if (s == "solid" && l2 > 1.0 + 4 * eps) return "solidSphereRand/outside-unit-ball";
    if (s == "hollow" && std::fabs (std::sqrt (l2) - 1.0) > 4 * eps) return "hollowSphereRand/not-on-unit-sphere";
    return "";
}
template <class G> static std::string runSamplerV (const std::string& s, const std::string& vec, G& g, std::vector<uint64_t>& out)
{
    if (vec == "V2f") return runSampler<V2f> (s, g, out);
    if (vec == "V3f") return runSampler<V3f> (s, g, out);
    if (vec == "V2d") return runSampler<V2d> (s, g, out);
    if (vec == "V4f") return runSampler<V4f> (s, g, out);
    if (vec == "V4d") return runSampler<V4d> (s, g, out);
    return runSampler<V3d> (s, g, out);
}

static inline double ulpOf (double x, bool isFloat)
{
    // spacing just below |x| (finite also for the largest finite value)
    x = std::fabs (x);
    if (isFloat) { float f = float (x); return f == 0 ? double (std::nextafter (0.0f, 1.0f)) : double (f) - double (std::nextafter (f, 0.0f)); }
    return x == 0 ? std::nextafter (0.0, 1.0) : x - std::nextafter (x, 0.0);
}

template <class R> struct TwinState
{
    R                                  gen[2];
    size_t                             pos[2] = {0, 0};
    std::vector<std::vector<uint64_t>> outs[2];
    int                                draws[2] = {0, 0};
    TwinState (uint64_t seed) : gen{R (seed), R (seed)} {}
};

template <class R>
static std::string twinStep (TwinState<R>& t, const Pair& q, int side, bool isFloat, Stats& st, std::vector<uint64_t>& outv, std::string& opname)
{
    if (t.pos[side] >= q.script.size ()) { opname = "idle"; return ""; }
    size_t          k = t.pos[side]++;
    const ScriptOp& s = q.script[k];
    R&              g = t.gen[side];
    std::string     bad;
    opname            = s.op;
    char buf[256];
    if (s.op == "nextb") { bool b = g.nextb (); outv.push_back (b); t.draws[side]++; }
    else if (s.op == "nexti")
    {
        long long v = (long long) g.nexti ();
        outv.push_back (uint64_t (v));
        t.draws[side]++;
        long long hi = isFloat ? 0xffffffffLL : 0x7fffffffLL;
        if (v < 0 || v > hi) { snprintf (buf, sizeof buf, "%s/nexti/out-of-range", q.kind.c_str ()); bad = buf; }
    }
    else if (s.op == "nextf")
    {
        double v = double (g.nextf ());
        outv.push_back (dbits (v));
        t.draws[side]++;
        if (!(v >= 0.0 && v < 1.0)) { snprintf (buf, sizeof buf, "%s/nextf/outside-[0,1)", q.kind.c_str ()); bad = buf; }
        if (v == 0.0 || v >= 1.0 - 1e-6) st.inc ("probe.extreme_nextf");
    }
    else if (s.op == "nextfr")
    {
        double v;
        if (isFloat) v = double (g.nextf (float (s.a), float (s.b))); else v = double (g.nextf (s.a, s.b));
        outv.push_back (dbits (v));
        t.draws[side]++;
        double lo = std::min (s.a, s.b), hi = std::max (s.a, s.b);
        double tol = 2 * ulpOf (std::max (std::fabs (s.a), std::fabs (s.b)), isFloat);
        if (!std::isfinite (v) || !(v >= lo - tol && v <= hi + tol)) { snprintf (buf, sizeof buf, "%s/nextf(a,b)/outside-interval", q.kind.c_str ()); bad = buf; }
        if (std::fabs (s.a) > 1e30 && std::fabs (s.b) > 1e30) st.inc ("probe.nextf_range_wider_than_the_largest_finite_value");
    }
    else if (s.op == "init")
    {
        g.init (s.seed);
        if (t.draws[side] > 0) st.inc ("fault.reseed_midstream");
        if (t.pos[1 - side] <= k && t.pos[1 - side] > 0) st.inc ("probe.reseed_between_twin_steps");
    }
    else if (s.op == "fork")
    {
        R copy (g);
        long long a = (long long) g.nexti (), b = (long long) copy.nexti ();
        long long a2 = (long long) g.nexti (), b2 = (long long) copy.nexti ();
        outv.push_back (uint64_t (a)); outv.push_back (uint64_t (a2));
        st.inc ("fault.fork");
        if (a != b || a2 != b2) { snprintf (buf, sizeof buf, "%s/fork/copy-diverges", q.kind.c_str ()); bad = buf; }
    }
    else
    {
        Counting<R> cg (g);
        std::string r = runSamplerV (s.op, s.vec, cg, outv);
        int dims = s.vec[1] - '0';
        int base = s.op == "gauss" ? 2 : s.op == "gsphere" ? dims + 2 : dims;
        if (cg.n > base) st.inc ("probe.sampler_rejected_candidate");
        t.draws[side] += cg.n;
        opname = s.op + (s.op == "gauss" ? "" : ":" + s.vec);
        if (!r.empty ()) bad = r + "<" + s.vec + "," + q.kind + ">";
    }
    t.outs[side].push_back (outv);
    // purity: the twin that arrives second at script position k must see what the first saw
    if (bad.empty () && t.outs[1 - side].size () > k && t.outs[1 - side][k] != outv)
    {
        snprintf (buf, sizeof buf, "%s/twin-diverges/%s", q.kind.c_str (), s.op.c_str ());
        bad = buf;
    }
    return bad;
}

// Real OS threads, parked; exactly one runs at a time, chosen by the plan (no choice is left to the OS scheduler)
struct Lanes
{
    struct Lane
    {
        std::thread             th;
        std::mutex              m;
        std::condition_variable cv;
        std::function<void ()>  job;
        bool                    has = false, done = false, quit = false;
    };
    std::vector<Lane*> lanes;
    explicit Lanes (int n)
    {
        for (int i = 1; i < n; i++)
        {
            Lane* l = new Lane;
            l->th = std::thread ([l] () {
                std::unique_lock<std::mutex> lk (l->m);
                for (;;)
                {
                    l->cv.wait (lk, [l] () { return l->has || l->quit; });
                    if (l->quit) return;
                    l->job ();
                    l->has = false; l->done = true;
                    l->cv.notify_all ();
                }
            });
            lanes.push_back (l);
        }
    }
    void run (int t, const std::function<void ()>& f)
    {
        if (t <= 0 || t > int (lanes.size ())) { f (); return; }
        Lane* l = lanes[t - 1];
        std::unique_lock<std::mutex> lk (l->m);
        l->job = f; l->has = true; l->done = false;
        l->cv.notify_all ();
        l->cv.wait (lk, [l] () { return l->done; });
    }
    ~Lanes ()
    {
        for (auto l : lanes)
        {
            { std::unique_lock<std::mutex> lk (l->m); l->quit = true; l->cv.notify_all (); }
            l->th.join ();
            delete l;
        }
    }
};

static Outcome interpret (const Plan& p, Stats& st)
{
    Outcome o;
    char    buf[512];
    auto fail = [&] (int step, const std::string& sig, const std::string& detail) {
        if (o.ok) { o.ok = false; o.v = {sig, detail, step}; }
    };

    // --- set up the world ---------------------------------------------------------------------
    IMATH_NAMESPACE::srand48 (p.globalSeed);
    ::srand48 (p.globalSeed);
    uint64_t gModel = ((uint64_t (p.globalSeed) & 0xffffffffULL) << 16) | 0x330e;
    int      gDraws = 0;
    std::set<int> gUsers;

    struct ELive { unsigned short* im; unsigned short gl[3]; uint64_t x; int draws; };
    std::map<int, ELive> E;
    std::vector<unsigned short*> arena;
    for (auto& c : p.e)
    {
        ELive l;
        l.im = new unsigned short[3];
        arena.push_back (l.im);
        memcpy (l.im, c.s, 6); memcpy (l.gl, c.s, 6);
        l.x = pack (c.s); l.draws = 0;
        E[c.id] = l;
        if (c.boundary) st.inc ("fault.boundary_state");
    }
    std::set<int> G (p.g.begin (), p.g.end ());
    std::map<int, TwinState<Rand48>*> T48;
    std::map<int, TwinState<Rand32>*> T32;
    std::map<int, const Pair*> pairById;
    for (auto& q : p.pairs)
    {
        pairById[q.id] = &q;
        if (q.kind == "R48") T48[q.id] = new TwinState<Rand48> (q.seed);
        else T32[q.id] = new TwinState<Rand32> (q.seed);
    }

    int lastClient = -1;
    std::set<int> stepped;
    int stepNo = 0;
    Lanes lanes (p.threads);
    int lastThread = 0;
    for (auto& s : p.steps)
    {
        if (!o.ok) break;
        int cid = s.type == 's' ? s.id : s.type == 't' ? 1000 + 2 * s.id + s.side : 5000;
        int thr = 0;
        if (p.threads > 1) { auto it = p.affinity.find (cid); if (it != p.affinity.end ()) thr = it->second % p.threads; }
        if (thr != lastThread) st.inc ("fault.cross_thread_handoff");
        lastThread = thr;
        lanes.run (thr, [&] () {
        if (stepped.count (cid) && lastClient != cid) st.inc ("fault.foreign_interleave");
        stepped.insert (cid);
        lastClient = cid;
        o.steps++;
        o.hash = fnv (o.hash, uint64_t (cid));

        if (s.type == 's' && E.count (s.id))
        {
            ELive& l = E[s.id];
            o.ihash  = fnv (fnv (o.ihash, 'E'), s.op[0] * 131 + s.op[1]);
            st.inc ("op.E." + s.op);
            if (s.op == "erand")
            {
                double im = IMATH_NAMESPACE::erand48 (l.im);
                double gl = ::erand48 (l.gl);
                l.x       = lcgNext (l.x);
                double md = std::ldexp (double (l.x), -48);
                l.draws++;
                o.hash = fnv (o.hash, dbits (im));
                if (gl != md) fail (stepNo, "harness/glibc-vs-lcg-model", "erand48");
                if (!(im >= 0.0 && im < 1.0))
                {
                    snprintf (buf, sizeof buf, "state->%012" PRIx64 " imath=%a", l.x, im);
                    fail (stepNo, "erand48/outside-[0,1)", buf);
                }
                else if (!(std::fabs (im - gl) <= 0x1p-48)) // "to within 2^-48": a difference of exactly 2^-48 is within
                {
                    snprintf (buf, sizeof buf, "state->%012" PRIx64 " imath=%a posix=%a", l.x, im, gl);
                    fail (stepNo, "erand48/differs-from-posix", buf);
                }
                if (l.x == 0 || l.x == MASK48 || im == 0.0 || im >= 1.0 - 0x1p-47) st.inc ("probe.extreme_mantissa");
            }
            else if (s.op == "nrand")
            {
                long im = IMATH_NAMESPACE::nrand48 (l.im);
                long gl = ::nrand48 (l.gl);
                l.x     = lcgNext (l.x);
                long md = long (l.x >> 17);
                l.draws++;
                o.hash = fnv (o.hash, uint64_t (im));
                if (gl != md) fail (stepNo, "harness/glibc-vs-lcg-model", "nrand48");
                if (im != gl)
                {
                    snprintf (buf, sizeof buf, "state->%012" PRIx64 " imath=%ld posix=%ld", l.x, im, gl);
                    fail (stepNo, "nrand48/value-differs-from-posix", buf);
                }
                if (im == 0 || im == 0x7fffffffL) st.inc ("probe.extreme_nrand");
            }
            else if (s.op == "restart")
            {
                // crash/restart with only the durable state surviving: the three shorts
                unsigned short* fresh = new unsigned short[3];
                arena.push_back (fresh);
                memcpy (fresh, l.im, 6);
                l.im[0] = l.im[1] = l.im[2] = 0xdead;
                l.im = fresh;
                st.inc ("fault.restart_from_snapshot");
            }
            else if (s.op == "set")
            {
                memcpy (l.im, s.set, 6); memcpy (l.gl, s.set, 6);
                l.x = pack (s.set);
                st.inc ("fault.boundary_state");
            }
            // successor state: limb by limb against glibc and the integer model
            if (o.ok && (memcmp (l.im, l.gl, 6) != 0 || pack (l.im) != l.x))
            {
                snprintf (buf, sizeof buf, "after %s: imath=%04x:%04x:%04x posix=%04x:%04x:%04x", s.op.c_str (), l.im[2], l.im[1], l.im[0], l.gl[2], l.gl[1], l.gl[0]);
                fail (stepNo, (s.op == "erand" ? "erand48" : "nrand48") + std::string ("/successor-state-differs"), buf);
            }
            for (int i = 0; i < 3; i++) o.hash = fnv (o.hash, l.im[i]);
        }
        else if (s.type == 's' && G.count (s.id))
        {
            o.ihash = fnv (fnv (o.ihash, 'G'), s.op[0]);
            st.inc ("op.G." + s.op);
            gUsers.insert (s.id);
            if (gUsers.size () >= 2) st.inc ("probe.global_shared_by_2+_clients");
            if (s.op == "drand")
            {
                double im = IMATH_NAMESPACE::drand48 ();
                double gl = ::drand48 ();
                gModel    = lcgNext (gModel);
                double md = std::ldexp (double (gModel), -48);
                gDraws++;
                o.hash = fnv (o.hash, dbits (im));
                if (gl != md) fail (stepNo, "harness/glibc-vs-lcg-model", "drand48");
                if (!(im >= 0.0 && im < 1.0)) { snprintf (buf, sizeof buf, "imath=%a", im); fail (stepNo, "drand48/outside-[0,1)", buf); }
                else if (!(std::fabs (im - gl) <= 0x1p-48)) // "to within 2^-48": a difference of exactly 2^-48 is within
                {
                    snprintf (buf, sizeof buf, "global draw #%d imath=%a posix=%a", gDraws, im, gl);
                    fail (stepNo, "drand48/differs-from-posix", buf);
                }
            }
            else if (s.op == "lrand")
            {
                long im = IMATH_NAMESPACE::lrand48 ();
                long gl = ::lrand48 ();
                gModel  = lcgNext (gModel);
                gDraws++;
                o.hash = fnv (o.hash, uint64_t (im));
                if (gl != long (gModel >> 17)) fail (stepNo, "harness/glibc-vs-lcg-model", "lrand48");
                if (im != gl)
                {
                    snprintf (buf, sizeof buf, "global draw #%d imath=%ld posix=%ld", gDraws, im, gl);
                    fail (stepNo, "lrand48/value-differs-from-posix", buf);
                }
            }
            else if (s.op == "srand")
            {
                IMATH_NAMESPACE::srand48 (s.seed);
                ::srand48 (s.seed);
                gModel = ((uint64_t (s.seed) & 0xffffffffULL) << 16) | 0x330e;
                if (gDraws > 0) st.inc ("fault.reseed_midstream");
            }
        }
        else if (s.type == 't' && pairById.count (s.id))
        {
            const Pair&           q = *pairById[s.id];
            std::vector<uint64_t> outv;
            std::string           bad, opname;
            bool                  f32 = q.kind == "R32";
            if (f32) bad = twinStep (*T32[s.id], q, s.side, true, st, outv, opname);
            else bad = twinStep (*T48[s.id], q, s.side, false, st, outv, opname);
            o.ihash = fnv (fnv (o.ihash, f32 ? 'r' : 'R'), fnv (FNV0, std::hash<std::string> () (opname)));
            st.inc ("op." + q.kind + "." + opname.substr (0, opname.find (':')));
            for (auto v : outv) o.hash = fnv (o.hash, v);
            if (!bad.empty ())
            {
                snprintf (buf, sizeof buf, "pair %d side %d seed %" PRIu64, s.id, s.side, q.seed);
                fail (stepNo, bad, buf);
            }
        }
        else if (s.type == 'a')
        {
            std::vector<uint64_t> outv;
            std::string           bad;
            int                   nforced = 0, ndraws = 0;
            if (s.gen == "R32") { Adversarial<Rand32> g (s.aseed, s.forced); bad = runSamplerV (s.sampler, s.vec, g, outv); nforced = g.nforced; ndraws = g.n; }
            else { Adversarial<Rand48> g (s.aseed, s.forced); bad = runSamplerV (s.sampler, s.vec, g, outv); nforced = g.nforced; ndraws = g.n; }
            o.ihash = fnv (fnv (o.ihash, 'X'), s.sampler[0] * 7 + s.vec[1] + s.vec[2]);
            st.inc ("op.ADV." + s.sampler);
            st.inc ("fault.adversarial_generator_value", nforced);
            int dims = s.vec[1] - '0';
            int base = s.sampler == "gauss" ? 2 : s.sampler == "gsphere" ? dims + 2 : dims;
            if (ndraws > base) st.inc ("probe.sampler_rejected_candidate");
            for (auto v : outv) o.hash = fnv (o.hash, v);
            if (!bad.empty ()) fail (stepNo, bad + "<" + s.vec + ",adversarial " + s.gen + ">", "forced generator outputs");
        }
        });
        // steps that reference a client the (minimised) plan no longer declares are no-ops
        stepNo++;
    }
    // --- end of run: expose the hidden global state through its next outputs -------------------
    if (o.ok)
    {
        for (int i = 0; i < 3 && o.ok; i++)
        {
            long im = IMATH_NAMESPACE::lrand48 ();
            long gl = ::lrand48 ();
            gModel  = lcgNext (gModel);
            o.hash = fnv (o.hash, uint64_t (im));
            if (im != gl || gl != long (gModel >> 17))
            {
                snprintf (buf, sizeof buf, "end-of-run probe %d imath=%ld posix=%ld", i, im, gl);
                fail (stepNo, gDraws == 0 && gUsers.empty () ? "srand48/global-state-differs-from-posix" : "lrand48/global-state-differs-from-posix", buf);
            }
        }
    }
    for (auto a : arena) delete[] a;
    for (auto& kv : T48) delete kv.second;
    for (auto& kv : T32) delete kv.second;
    return o;
}

// ------------------------------------------------------------------------------------------------
static std::string readFile (const char* path)
{
    FILE* f = fopen (path, "rb");
    if (!f) return "";
    std::string s; char b[4096]; size_t n;
    while ((n = fread (b, 1, sizeof b, f)) > 0) s.append (b, n);
    fclose (f);
    return s;
}

int main (int argc, char** argv)
{
    if (argc >= 3 && !strcmp (argv[1], "--gen"))
    {
        fputs (planText (generate (strtoull (argv[2], nullptr, 10))).c_str (), stdout);
        return 0;
    }
    if (argc >= 3 && !strcmp (argv[1], "--plan"))
    {
        Plan p; std::string err;
        if (!parsePlan (readFile (argv[2]), p, err)) { printf ("ERROR %s\n", err.c_str ()); return 3; }
        Stats   st;
        Outcome o = interpret (p, st);
        if (o.ok) printf ("OK %016" PRIx64 " steps=%" PRIu64 "\n", o.hash, o.steps);
        else printf ("FAIL %s | step %d | %s | %016" PRIx64 "\n", o.v.sig.c_str (), o.v.step, o.v.detail.c_str (), o.hash);
        return o.ok ? 0 : 1;
    }
    if (argc >= 2 && !strcmp (argv[1], "--mix"))
    {
        printf ("%" PRIu64 "\n", mix3 (strtoull (argv[2], nullptr, 10), strtoull (argv[3], nullptr, 10), strtoull (argv[4], nullptr, 10)));
        return 0;
    }
    if (argc >= 2 && !strcmp (argv[1], "--batch"))
    {
        // optional: --ihash-mod R : report interleaving hashes h with h % R == 0
        uint64_t imod = 1;
        for (int i = 2; i + 1 < argc; i++) if (!strcmp (argv[i], "--ihash-mod")) imod = strtoull (argv[i + 1], nullptr, 10);
        char line[256];
        while (fgets (line, sizeof line, stdin))
        {
            unsigned long long base, lo, hi;
            if (sscanf (line, "%llu %llu %llu", &base, &lo, &hi) != 3) continue;
            Stats                st;
            uint64_t             chunkHash = FNV0, steps = 0, nviol = 0;
            std::set<uint64_t>   ih;
            for (unsigned long long i = lo; i < hi; i++)
            {
                uint64_t seed = mix3 (base, 18, i);
                Plan     p    = generate (seed);
                Outcome  o    = interpret (p, st);
                chunkHash     = fnv (chunkHash, o.hash);
                steps += o.steps;
                if (o.ihash % imod == 0) ih.insert (o.ihash);
                if (!o.ok)
                {
                    nviol++;
                    printf ("VIOL %llu %" PRIu64 " %016" PRIx64 " %s | step %d | %s\n", i, seed, o.hash, o.v.sig.c_str (), o.v.step, o.v.detail.c_str ());
                }
            }
            printf ("CHUNK %llu %llu %016" PRIx64 " steps=%" PRIu64 " viol=%" PRIu64, lo, hi, chunkHash, steps, nviol);
            for (auto& kv : st.c) printf (" %s=%" PRIu64, kv.first.c_str (), kv.second);
            printf ("\nIH %llu", lo);
            for (auto h : ih) printf (" %" PRIx64, h);
            printf ("\nDONE %llu\n", lo);
            fflush (stdout);
        }
        return 0;
    }
    fprintf (stderr, "usage: sim18 --gen <seed> | --plan <file> | --batch [--ihash-mod R]\n");
    return 2;
}
