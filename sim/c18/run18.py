"""C18 check: interleaved clients of Imath's rand48 family / Rand32 / Rand48 / samplers against a
reference model.  See DESIGN.md section 5."""
import hashlib
import json
import os
import subprocess
import sys
import time

sys.path.insert(0, os.path.dirname(os.path.dirname(os.path.dirname(os.path.abspath(__file__)))))
from sim import build, common
from sim.common import log

HERE = os.path.dirname(os.path.abspath(__file__))
PROP = "C18"
CHUNK = 1000
RUNS = {"quick": 60000, "thorough": 6000000}
IHASH_MOD = {"quick": 1, "thorough": 8}


def build_sim():
    bd = build.ensure("core")
    m = build.mirror_dir()
    h = hashlib.sha1()
    inputs = [os.path.join(HERE, "sim18.cpp")]
    for d in (os.path.join(m, "src/Imath"), os.path.join(bd, "config")):
        for fn in sorted(os.listdir(d)):
            if fn.endswith(".h"):
                inputs.append(os.path.join(d, fn))
    for p in inputs:
        with open(p, "rb") as f:
            h.update(f.read())
    tag = h.hexdigest()[:16]
    exe = os.path.join(build.CACHE, "sim18" + ("-" + os.path.basename(bd) if build.REPO != "/repo" else ""))
    stamp = exe + ".stamp"
    if not (os.path.exists(exe) and os.path.exists(stamp) and open(stamp).read() == tag):
        libdir = os.path.join(bd, "src/Imath")
        cmd = ["g++", "-std=c++17", "-O2", "-g1", "-I" + os.path.join(m, "src/Imath"), "-I" + os.path.join(bd, "config"),
               os.path.join(HERE, "sim18.cpp"), "-o", exe, "-L" + libdir, "-lImath", "-Wl,-rpath," + libdir, "-lpthread"]
        r = subprocess.run(cmd, capture_output=True, text=True)
        if r.returncode != 0:
            raise build.BuildError("sim18 does not compile against the tree:\n" + r.stderr[-3000:])
        with open(stamp, "w") as f:
            f.write(tag)
    return exe


class Batch:
    def __init__(self, exe, base, nruns, workers, imod):
        self.exe, self.base, self.nruns, self.workers, self.imod = exe, base, nruns, workers, imod
        self.chunks = {}      # lo -> hash
        self.stats = {}
        self.viol = []        # (idx, seed, hash, sig, detail)
        self.ih = set()
        self.steps = 0
        self.dead = []

    def on_line(self, task, line):
        if line.startswith("CHUNK "):
            parts = line.split()
            lo = int(parts[1])
            self.chunks[lo] = parts[3]
            for kv in parts[4:]:
                k, v = kv.rsplit("=", 1)
                if k == "steps":
                    self.steps += int(v)
                elif k != "viol":
                    self.stats[k] = self.stats.get(k, 0) + int(v)
        elif line.startswith("IH "):
            for h in line.split()[2:]:
                self.ih.add(h)
        elif line.startswith("VIOL "):
            head, _, rest = line.partition(" | ")
            _, idx, seed, hsh, sig = head.split(" ", 4)
            self.viol.append((int(idx), int(seed), hsh, sig, rest))

    def on_death(self, task, lines, rc, err):
        self.dead.append((task, rc, err[-500:]))
        return []

    def run(self):
        fl = common.Fleet([self.exe, "--batch", "--ihash-mod", str(self.imod)], None, self.workers, self.on_line, self.on_death)
        for lo in range(0, self.nruns, CHUNK):
            fl.submit("%d %d %d" % (self.base, lo, min(lo + CHUNK, self.nruns)))
        fl.run()
        fl.close()
        return self


def run_plan(exe, text):
    tmp = os.path.join(build.CACHE, "plan18.%d.txt" % os.getpid())
    with open(tmp, "w") as f:
        f.write(text)
    r = subprocess.run([exe, "--plan", tmp], capture_output=True, text=True)
    os.unlink(tmp)
    out = r.stdout.strip()
    if out.startswith("FAIL "):
        sig = out[5:].split(" | ")[0]
        return ("FAIL", sig, out)
    if out.startswith("OK "):
        return ("OK", None, out)
    return ("CRASH rc=%d" % r.returncode, "crash/rc=%d" % r.returncode, out + r.stderr[-400:])


def minimise(exe, plan_text, sig):
    """ddmin over the step lines, then over each pair's script ops, then drop unused clients."""
    lines = plan_text.strip().split("\n")
    header = [l for l in lines if l[0] not in "sta"]
    steps = [l for l in lines if l[0] in "sta"]
    tests = [0]

    def fails(st, hd=None):
        tests[0] += 1
        return run_plan(exe, "\n".join((hd or header) + st) + "\n")[1] == sig

    steps, _ = common.ddmin(steps, fails, budget=300)
    # shrink scripts of pairs
    for hi, h in enumerate(list(header)):
        if not h.startswith("P "):
            continue
        pre, _, script = h.partition(" : ")
        ops = script.split()

        def fails_ops(o, hi=hi, pre=pre):
            hd = list(header)
            hd[hi] = pre + " : " + " ".join(o)
            return fails(steps, hd)

        if len(ops) > 1:
            ops, _ = common.ddmin(ops, fails_ops, budget=120)
            header[hi] = pre + " : " + " ".join(ops)
    # drop unused client declarations
    for h in list(header):
        if h.startswith("global"):
            continue
        cand = [x for x in header if x is not h]
        if fails(steps, cand):
            header = cand
    # shrink forced lists of adversarial ops
    for si, s in enumerate(list(steps)):
        if not s.startswith("a "):
            continue
        tok = s.split()
        head, forced = tok[:5], tok[5:]

        def fails_forced(fv, si=si, head=head):
            st = list(steps)
            st[si] = " ".join(head + fv)
            return fails(st)

        if len(forced) > 1:
            forced, _ = common.ddmin(forced, fails_forced, budget=60)
            steps[si] = " ".join(head + forced)
    return "\n".join(header + steps) + "\n", tests[0]


def handle_violation(exe, base, v):
    idx, seed, hsh, sig, detail = v
    # gate 1: same seed again, same hash and signature
    plan = subprocess.run([exe, "--gen", str(seed)], capture_output=True, text=True).stdout
    a = run_plan(exe, plan)
    b = run_plan(exe, plan)
    if a[1] != sig or b[1] != sig or a[2] != b[2]:
        raise common.HarnessFault("C18 seed %d: violation %s did not reproduce (%s / %s)" % (seed, sig, a[2], b[2]))
    small, ntests = minimise(exe, plan, sig)
    doc = {"property": PROP, "seed": seed, "base_seed": base, "run_index": idx, "class": "semantic", "signature": sig,
           "plan": small.strip().split("\n"), "schedule": "the order of the s/t/a lines of the plan is the schedule",
           "observed": detail, "minimisation_tests": ntests, "original_plan_lines": len(plan.strip().split("\n"))}
    name = "seed%d-%s" % (seed, "".join(c if c.isalnum() else "_" for c in sig)[:60])
    path = common.write_replay(PROP, name, doc)
    # gate 3: fresh-process replay of the file, twice
    for _ in range(2):
        if replay(path, exe=exe, quiet=True) != 1:
            raise common.HarnessFault("C18 replay of %s did not reproduce" % path)
    return {"signature": sig, "replay": path, "detail": detail}


def replay(path, exe=None, quiet=False):
    exe = exe or build_sim()
    with open(path) as f:
        doc = json.load(f)
    st, sig, out = run_plan(exe, "\n".join(doc["plan"]) + "\n")
    if not quiet:
        log("replay %s: %s" % (path, out))
    if sig is not None and sig == doc["signature"]:
        if not quiet:
            log("VIOLATION property=%s replay=%s" % (PROP, path))
        return 1
    if sig is not None:
        if not quiet:
            log("replay fails differently: %s (recorded %s)" % (sig, doc["signature"]))
        return 1
    return 0


def main(tier, base_seed):
    t0 = time.time()
    exe = build_sim()
    nruns = max(CHUNK, int(RUNS[tier] * float(os.environ.get("VERIF_RUNS", "1"))))    # VERIF_RUNS: scale factor (experiments only)
    imod = IHASH_MOD[tier]
    workers = int(os.environ.get("VERIF_WORKERS", "16"))
    log("[C18] tier=%s base_seed=%d runs=%d" % (tier, base_seed, nruns))

    # determinism gate: the same seeds, another worker count (different runs share a process; the
    # hidden global generator state left behind by a previous run must not leak into the next)
    gate_n = min(nruns, 30000)
    g1 = Batch(exe, base_seed, gate_n, 3, 1 << 62).run()
    b = Batch(exe, base_seed, nruns, workers, imod).run()
    if b.dead or g1.dead:
        raise common.HarnessFault("C18 worker died: %r" % ((b.dead or g1.dead)[0],))
    mism = [lo for lo, h in g1.chunks.items() if b.chunks.get(lo) != h]
    gate_failures = []
    if mism:
        # State that leaks from one run into the next (a function-local static in the code under test) makes runs depend
        # on what the process executed before.  A gate failure is never a verdict by itself: the candidate violations
        # must pass their own reproduction gates (same plan twice, minimisation, fresh-process replay twice); if none
        # does, the check ends as a harness fault.
        gate_failures.append("C18 determinism gate: chunk hashes differ at %s" % mism[:5])
        log("[C18] determinism gate FAILED for chunks %s: runs depend on process history" % mism[:5])
    else:
        log("[C18] determinism gate: %d runs executed twice (3 vs %d workers), all %d chunk hashes equal" % (gate_n, workers, len(g1.chunks)))

    results = []
    by_sig = {}
    for v in sorted(b.viol):
        by_sig.setdefault(v[3], v)
    for sig, v in list(by_sig.items())[:8]:
        try:
            r = handle_violation(exe, base_seed, v)
        except common.HarnessFault as e:
            gate_failures.append(str(e))
            continue
        k = common.match_known(PROP, r["signature"])
        if k:
            r["known"], r["what"] = True, k["what"]
        results.append(r)

    wall = time.time() - t0
    faults = {k[6:]: v for k, v in sorted(b.stats.items()) if k.startswith("fault.")}
    probes = {k[6:]: v for k, v in sorted(b.stats.items()) if k.startswith("probe.")}
    ops = {k[3:]: v for k, v in sorted(b.stats.items()) if k.startswith("op.")}
    samples = []
    for i in (0, 1, 2):
        seed = int(subprocess.run([exe, "--mix", str(base_seed), "18", str(i)], capture_output=True, text=True).stdout)
        plan = subprocess.run([exe, "--gen", str(seed)], capture_output=True, text=True).stdout.strip().split("\n")
        samples.append({"run_index": i, "seed": seed, "plan_head": plan[:14], "plan_lines": len(plan)})
    coverage = {
        "evaluations": nruns,
        "distinct_nontrivial": len(b.ih),
        "rule": "one evaluation = one simulated run: a plan generated from seed=mix(VERIF_SEED,18,i) (1-9 clients: explicit-state erand48/nrand48 users, "
                "users of the hidden global generator, Rand32/Rand48 twin pairs, adversarial-generator sampler calls; 4-400 scheduler steps) interpreted against "
                "glibc rand48 + a 48-bit integer LCG. distinct_nontrivial = number of distinct interleaving hashes (FNV-1a of the sequence of (client kind, entry point) "
                "steps) among runs" + (" whose hash is divisible by %d (a sampled lower bound)" % imod if imod > 1 else "") + "; every run has >= 4 steps so none is trivial",
        "samples": samples,
        "scheduler_steps": b.steps,
        "simulated_time": "no clock exists in the code under test; simulated time = scheduler steps (%d)" % b.steps,
        "runs_per_hour": int(nruns / max(wall, 1e-9) * 3600),
        "faults_fired": faults,
        "probes_hit": probes,
        "ops_executed": ops,
        "determinism_gate": {"runs_executed_twice": gate_n, "worker_counts": [3, workers], "chunk_hash_mismatches": len(mism)},
        "components": {"real": ["libImath ImathRandom.cpp (erand48 nrand48 drand48 lrand48 srand48 Rand32::nextf) built from /repo's working tree",
                                "ImathRandom.h templates (Rand32, Rand48, solid/hollow/gaussSphereRand, gaussRand) compiled from the tree",
                                "glibc rand48 family (reference)"],
                       "simulated": ["clients and the seeded scheduler interleaving them", "48-bit integer LCG model",
                                     "adversarial generator plugged into the samplers' Rand template parameter (values restricted to the shipped generators' value lattice)"]},
        "tree_id": build.tree_id(),
        "violations_by_signature": {s: sum(1 for x in b.viol if x[3] == s) for s in by_sig},
    }
    assumptions = [
        "glibc's erand48/nrand48/drand48/lrand48/srand48 are 'the POSIX functions of the same name' (cross-checked in every step against an independent integer LCG; a disagreement is reported as a harness fault, not a violation)",
        "no specific constants are demanded of Rand32/Rand48::init; purity is checked with independently scheduled twins, forks and reseeds",
        "nextf(a,b) tolerance: 2 ulp of max(|a|,|b|) outside the closed interval; bounds within 2^+-90 (2^+-30 for float)",
        "seeded sampling of states and interleavings, not enumeration: a clean batch is evidence, not proof",
        "single-threaded by design: POSIX rand48 itself is not thread-safe and the property makes no concurrency claim",
    ]
    unknown = [r for r in results if not r.get("known")]
    if gate_failures and not unknown:
        raise common.HarnessFault("; ".join(gate_failures[:3]))
    coverage["reproduction_gate_failures"] = gate_failures[:5]
    common.write_evidence(PROP, tier, base_seed, coverage, assumptions, wall, len(unknown),
                          extra={"known_findings_reported": [r["signature"] for r in results if r.get("known")]})
    log("[C18] %d runs, %d steps, %d distinct interleavings, %d violating runs, %.1fs" % (nruns, b.steps, len(b.ih), len(b.viol), wall))
    return common.report(PROP, results)
