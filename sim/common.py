"""Shared machinery of the three simulators: worker fleet, delta debugging, known findings,
evidence files, violation reporting."""
import json
import os
import queue
import re
import subprocess
import sys
import threading
import time

VERIF = os.path.dirname(os.path.dirname(os.path.abspath(__file__)))
OUT = os.path.join(VERIF, "out")          # replay files and logs written by checks (git-ignored)
EVIDENCE = os.path.join(VERIF, "evidence")
if os.environ.get("VERIF_REPO", "/repo") != "/repo":
    # a run pointed at another tree (self-test, regression over seeded changes) must not overwrite the evidence of /repo
    EVIDENCE = os.path.join(VERIF, "out", "evidence-of-other-trees")


def log(*a):
    print(*a, flush=True)


# --------------------------------------------------------------------------------------------------
# fleet of persistent worker processes
# --------------------------------------------------------------------------------------------------
class Fleet:
    """K persistent workers; each reads one task line from stdin, answers with any number of lines and
    a final line starting with 'DONE'.  A worker that dies is restarted; the task it was working on is
    handed to on_death (which may return follow-up tasks)."""

    def __init__(self, argv, env, nworkers, on_line, on_death, cwd=None, stderr_dir=None, task_timeout=600):
        self.argv, self.env, self.n = argv, env, nworkers
        self.on_line, self.on_death = on_line, on_death
        self.cwd = cwd
        self.q = queue.Queue()
        self.lock = threading.Lock()
        self.pending = 0
        self.done_ev = threading.Event()
        self.deaths = 0
        self.stderr_dir = stderr_dir
        self.task_timeout = task_timeout
        self.threads = []
        self.stop = False

    def submit(self, task):
        with self.lock:
            self.pending += 1
        self.q.put(task)

    def _finish_one(self):
        with self.lock:
            self.pending -= 1
            if self.pending == 0:
                self.done_ev.set()

    def _spawn(self, wid):
        errf = None
        if self.stderr_dir:
            os.makedirs(self.stderr_dir, exist_ok=True)
            errf = open(os.path.join(self.stderr_dir, "worker%d.err" % wid), "wb")
        p = subprocess.Popen(self.argv, stdin=subprocess.PIPE, stdout=subprocess.PIPE,
                             stderr=errf if errf else subprocess.DEVNULL, env=self.env, cwd=self.cwd,
                             bufsize=0)
        p._errf = errf
        p._out = os.fdopen(os.dup(p.stdout.fileno()), "r", buffering=1 << 16, errors="replace")
        return p

    def _worker(self, wid):
        p = None
        while True:
            task = self.q.get()
            if task is None:
                break
            if p is None or p.poll() is not None:
                p = self._spawn(wid)
            lines = []
            died = False
            try:
                p.stdin.write((task + "\n").encode())
                p.stdin.flush()
            except (BrokenPipeError, OSError):
                died = True
            timer = None
            if not died:
                timer = threading.Timer(self.task_timeout, lambda pp=p: pp.kill())
                timer.start()
                while True:
                    line = p._out.readline()
                    if not line:
                        died = True
                        break
                    line = line.rstrip("\n")
                    if line.startswith("DONE"):
                        break
                    lines.append(line)
                    self.on_line(task, line)
                timer.cancel()
            if died:
                rc = p.wait()
                err_tail = ""
                if p._errf:
                    p._errf.close()
                    try:
                        with open(p._errf.name, "rb") as f:
                            f.seek(max(0, os.path.getsize(p._errf.name) - 6000))
                            err_tail = f.read().decode(errors="replace")
                    except OSError:
                        pass
                with self.lock:
                    self.deaths += 1
                follow = self.on_death(task, lines, rc, err_tail) or []
                for t in follow:
                    self.submit(t)
                p = None
            self._finish_one()
        if p is not None and p.poll() is None:
            try:
                p.stdin.close()
            except OSError:
                pass
            try:
                p.wait(timeout=10)
            except subprocess.TimeoutExpired:
                p.kill()

    def run(self):
        """process everything submitted so far (and follow-ups); returns when the queue is drained"""
        with self.lock:
            if self.pending == 0:
                return
        self.done_ev.clear()
        if not self.threads:
            for i in range(self.n):
                t = threading.Thread(target=self._worker, args=(i,), daemon=True)
                t.start()
                self.threads.append(t)
        self.done_ev.wait()

    def close(self):
        for _ in self.threads:
            self.q.put(None)
        for t in self.threads:
            t.join(timeout=30)
        self.threads = []


# --------------------------------------------------------------------------------------------------
# delta debugging
# --------------------------------------------------------------------------------------------------
def ddmin(items, fails, budget=400):
    """Classic ddmin over a list; `fails(sublist)` is True when the same violation persists.
    Returns (minimised list, number of test executions)."""
    tests = 0
    n = 2
    items = list(items)
    while len(items) >= 2 and tests < budget:
        chunk = max(1, len(items) // n)
        subsets = [items[i:i + chunk] for i in range(0, len(items), chunk)]
        reduced = False
        # complements first (drop one chunk)
        for i in range(len(subsets)):
            cand = [x for j, sset in enumerate(subsets) if j != i for x in sset]
            tests += 1
            if fails(cand):
                items = cand
                n = max(n - 1, 2)
                reduced = True
                break
            if tests >= budget:
                break
        if not reduced:
            if chunk == 1:
                break
            n = min(len(items), n * 2)
    # final single-item sweep
    i = 0
    while i < len(items) and tests < budget and len(items) > 1:
        cand = items[:i] + items[i + 1:]
        tests += 1
        if fails(cand):
            items = cand
        else:
            i += 1
    return items, tests


# --------------------------------------------------------------------------------------------------
# known findings
# --------------------------------------------------------------------------------------------------
def load_known():
    p = os.path.join(VERIF, "known_findings.json")
    if not os.path.exists(p):
        return {"known": [], "fixed": []}
    with open(p) as f:
        return json.load(f)


def match_known(prop, signature):
    """A violation is a known finding iff its signature matches a `known` entry of the same property
    exactly (entries pin call site + input shape; `fixed` entries suppress nothing)."""
    for k in load_known().get("known", []):
        if k["property"] != prop:
            continue
        if k.get("signature") == signature:
            return k
        if k.get("signature_regex") and re.fullmatch(k["signature_regex"], signature):
            return k
    return None


# --------------------------------------------------------------------------------------------------
# evidence
# --------------------------------------------------------------------------------------------------
def write_evidence(prop, tier, seed, coverage, assumptions, wall_s, violations, extra=None):
    os.makedirs(EVIDENCE, exist_ok=True)
    doc = {
        "property_id": prop,
        "tier": tier,
        "seed": seed,
        "level": "exploration",
        "coverage": coverage,
        "assumptions": assumptions,
        "wall_s": round(wall_s, 2),
        "violations": violations,
    }
    if extra:
        doc.update(extra)
    path = os.path.join(EVIDENCE, prop + ".json")
    tmp = path + ".tmp"
    with open(tmp, "w") as f:
        json.dump(doc, f, indent=1, sort_keys=False)
        f.write("\n")
    os.replace(tmp, path)
    return path


def write_replay(prop, name, doc):
    d = os.path.join(OUT, prop)
    os.makedirs(d, exist_ok=True)
    path = os.path.join(d, name + ".replay.json")
    with open(path, "w") as f:
        json.dump(doc, f, indent=1)
        f.write("\n")
    return path


def report(prop, results):
    """results: list of dicts {signature, replay, known(bool), what}.  Prints the protocol lines and
    returns the process exit status."""
    rc = 0
    for r in results:
        if r.get("known"):
            log("KNOWN-FINDING: property=%s %s (signature %s, replay %s)" % (prop, r["what"], r["signature"], r["replay"]))
        else:
            log("VIOLATION property=%s replay=%s" % (prop, r["replay"]))
            log("  signature: %s" % r["signature"])
            if r.get("detail"):
                log("  detail:    %s" % r["detail"])
            rc = 1
    return rc


class HarnessFault(Exception):
    """non-reproducible result, determinism gate failure, tool failure: exit status 2, never a verdict"""
