"""Mirror /repo's working tree and build it (incrementally) in one of several flavours.

Every check calls ensure(flavour) first, so that what is simulated is always the code that is in
/repo's working tree *now*.  Nothing is written into /repo.

flavours
  core   libImath only (Release)                                      -> C18
  asan   Imath + PyImath, -fsanitize=address                          -> C19, C20
  tsan   Imath + PyImath, -fsanitize=thread                           -> C20
  plain  Imath + PyImath, Release                                     -> thorough tiers, valgrind
"""
import fcntl
import hashlib
import os
import subprocess
import sys
import time

VERIF = os.path.dirname(os.path.dirname(os.path.abspath(__file__)))
REPO = os.environ.get("VERIF_REPO", "/repo")
CACHE = os.environ.get("VERIF_CACHE", os.path.join(VERIF, ".cache"))
PY = "/usr/bin/python3.11"
JOBS = int(os.environ.get("VERIF_JOBS", "16"))

FLAVOURS = {
    "core": dict(python=False, cxxflags="-O2 -g1", ldflags=""),
    # like upstream's Release build: assert() compiled out (the sanitizer flavours keep it)
    "plain": dict(python=True, cxxflags="-O2 -g1 -DNDEBUG", ldflags=""),
    "asan": dict(python=True,
                 cxxflags="-O1 -g1 -fno-omit-frame-pointer -fsanitize=address",
                 ldflags="-fsanitize=address"),
    "tsan": dict(python=True,
                 cxxflags="-O1 -g1 -fno-omit-frame-pointer -fsanitize=thread",
                 ldflags="-fsanitize=thread"),
}


class BuildError(Exception):
    pass


def _cache_tag():
    # a different VERIF_REPO (self-test on a scratch copy) gets its own mirror + build dirs
    if REPO == "/repo":
        return ""
    return "-" + hashlib.sha1(REPO.encode()).hexdigest()[:8]


def mirror_dir():
    return os.path.join(CACHE, "mirror" + _cache_tag())


def build_dir(flavour):
    return os.path.join(CACHE, "build-" + flavour + _cache_tag())


def _run(cmd, log, **kw):
    with open(log, "ab") as f:
        f.write(("\n$ " + " ".join(cmd) + "\n").encode())
        f.flush()
        r = subprocess.run(cmd, stdout=f, stderr=subprocess.STDOUT, **kw)
    return r.returncode


def sync_mirror():
    """rsync -c the working tree (content based; mtimes of unchanged files are preserved, so the
    incremental build only sees what really changed)."""
    os.makedirs(CACHE, exist_ok=True)
    m = mirror_dir()
    os.makedirs(m, exist_ok=True)
    cmd = ["rsync", "-a", "-c", "--delete", "-i", "--exclude=/_build", "--exclude=/.git",
           "--exclude=/website", REPO.rstrip("/") + "/", m + "/"]
    r = subprocess.run(cmd, capture_output=True, text=True)
    if r.returncode != 0:
        raise BuildError("rsync failed: " + r.stderr)
    # Every file whose content changed gets the current time: ninja rebuilds what is *newer* than its outputs, and a
    # file restored with its old modification time (cp -p, rsync -a, tar; git checkout does set the current time)
    # would otherwise leave the object files of the previous content in place.
    now = time.time()
    for line in r.stdout.split("\n"):
        if line.startswith(">f") and " " in line:
            f = os.path.join(m, line.split(" ", 1)[1])
            if os.path.isfile(f):
                os.utime(f, (now, now))
    return m


def ensure(flavour, quiet=False):
    """Return the build directory of `flavour`, rebuilt from REPO's current working tree."""
    cfg = FLAVOURS[flavour]
    os.makedirs(CACHE, exist_ok=True)
    lock = open(os.path.join(CACHE, "lock-" + flavour + _cache_tag()), "w")
    fcntl.flock(lock, fcntl.LOCK_EX)
    try:
        # the mirror is shared by all flavours: serialise its update too
        mlock = open(os.path.join(CACHE, "lock-mirror" + _cache_tag()), "w")
        fcntl.flock(mlock, fcntl.LOCK_EX)
        try:
            src = sync_mirror()
        finally:
            fcntl.flock(mlock, fcntl.LOCK_UN)
            mlock.close()
        bd = build_dir(flavour)
        log = os.path.join(CACHE, "build-" + flavour + _cache_tag() + ".log")
        if os.path.exists(log) and os.path.getsize(log) > 8 << 20:
            os.unlink(log)
        t0 = time.time()
        if not os.path.exists(os.path.join(bd, "build.ninja")):
            cmd = ["cmake", "-S", src, "-B", bd, "-G", "Ninja",
                   "-DCMAKE_BUILD_TYPE=None",
                   "-DCMAKE_CXX_FLAGS=" + cfg["cxxflags"],
                   "-DCMAKE_C_FLAGS=" + cfg["cxxflags"],
                   "-DCMAKE_SHARED_LINKER_FLAGS=" + cfg["ldflags"],
                   "-DCMAKE_MODULE_LINKER_FLAGS=" + cfg["ldflags"],
                   "-DCMAKE_EXE_LINKER_FLAGS=" + cfg["ldflags"],
                   "-DBUILD_TESTING=OFF"]
            if cfg["python"]:
                cmd += ["-DPYTHON=ON", "-DPython3_EXECUTABLE=" + PY, "-DPython_EXECUTABLE=" + PY,
                        "-DPython3_FIND_STRATEGY=LOCATION"]
            if _run(cmd, log) != 0:
                raise BuildError("cmake configure failed for %s (see %s)" % (flavour, log))
        rc = _run(["cmake", "--build", bd, "-j", str(JOBS)], log)
        if rc != 0:
            raise BuildError("build of flavour %s failed (see %s)" % (flavour, log))
        if not quiet:
            print("[build] %s up to date in %.1fs (%s)" % (flavour, time.time() - t0, bd), flush=True)
        return bd
    finally:
        fcntl.flock(lock, fcntl.LOCK_UN)
        lock.close()


def pyenv(bd):
    """Environment for running the freshly built imath module of build dir bd."""
    env = dict(os.environ)
    env["PYTHONPATH"] = os.path.join(bd, "python3_11")
    env["LD_LIBRARY_PATH"] = os.path.join(bd, "src/Imath") + ":" + os.path.join(bd, "src/python/PyImath")
    env["PYTHONHASHSEED"] = env.get("PYTHONHASHSEED", "0")
    env["PYTHONDONTWRITEBYTECODE"] = "1"
    return env


def tree_id():
    """Short content hash of the mirrored sources (recorded in evidence files)."""
    h = hashlib.sha1()
    m = mirror_dir()
    for root, dirs, files in os.walk(os.path.join(m, "src")):
        dirs.sort()
        for fn in sorted(files):
            p = os.path.join(root, fn)
            h.update(p[len(m):].encode())
            with open(p, "rb") as f:
                h.update(f.read())
    return h.hexdigest()[:16]


if __name__ == "__main__":
    for fl in sys.argv[1:] or ["core"]:
        try:
            print(ensure(fl))
        except BuildError as e:
            print("BUILD ERROR:", e)
            sys.exit(2)
