// A tiny CPython extension that installs a PyImath::WorkerPool whose way of
// splitting [0,len) is chosen from Python.  Used by demo.py only.
//
//   demopool.install(chunk, order, threads)
//       chunk   : sub-range size (>= 1)
//       order   : 0 = ascending, 1 = descending, 2 = interleaved (even chunks
//                 first, then odd chunks)
//       threads : 0 = run every sub-range on the calling thread (tid 0),
//                 N>0 = run the sub-ranges on N std::threads, thread t takes
//                 sub-ranges t, t+N, t+2N, ... of the ordered list (tid t)
//   demopool.uninstall()
//   demopool.dispatches()   -> how often dispatch() has been called so far
//   demopool.subranges()    -> how many sub-ranges have been executed so far

#include <Python.h>
#include <algorithm>
#include <atomic>
#include <thread>
#include <utility>
#include <vector>
#include "PyImathTask.h"

namespace {

thread_local bool t_inWorker = false;

struct DemoPool : public PyImath::WorkerPool
{
    size_t chunk   = 64;
    int    order   = 0;
    size_t threads = 0;
    std::atomic<size_t> nDispatch {0};
    std::atomic<size_t> nSub {0};

    size_t workers () const override { return threads ? threads : 1; }
    bool   inWorkerThread () const override { return t_inWorker; }

    void dispatch (PyImath::Task& task, size_t length) override
    {
        ++nDispatch;
        std::vector<std::pair<size_t, size_t>> ranges;
        for (size_t s = 0; s < length; s += chunk)
            ranges.push_back (std::make_pair (s, std::min (length, s + chunk)));

        std::vector<std::pair<size_t, size_t>> ordered;
        if (order == 0)
            ordered = ranges;
        else if (order == 1)
            ordered.assign (ranges.rbegin (), ranges.rend ());
        else
        {
            for (size_t i = 0; i < ranges.size (); i += 2) ordered.push_back (ranges[i]);
            for (size_t i = 1; i < ranges.size (); i += 2) ordered.push_back (ranges[i]);
        }

        if (threads == 0)
        {
            t_inWorker = true;
            try
            {
                for (auto& r : ordered)
                {
                    task.execute (r.first, r.second, 0);
                    ++nSub;
                }
            }
            catch (...)
            {
                t_inWorker = false;
                throw;
            }
            t_inWorker = false;
            return;
        }

        std::vector<std::thread> pool;
        for (size_t t = 0; t < threads; ++t)
        {
            pool.emplace_back ([&, t] () {
                t_inWorker = true;
                for (size_t i = t; i < ordered.size (); i += threads)
                {
                    task.execute (ordered[i].first, ordered[i].second, int (t));
                    ++nSub;
                }
                t_inWorker = false;
            });
        }
        for (auto& th : pool)
            th.join ();
    }
};

DemoPool g_pool;

PyObject*
py_install (PyObject*, PyObject* args)
{
    long chunk, order, threads;
    if (!PyArg_ParseTuple (args, "lll", &chunk, &order, &threads)) return nullptr;
    if (chunk < 1 || order < 0 || order > 2 || threads < 0)
    {
        PyErr_SetString (PyExc_ValueError, "bad pool parameters");
        return nullptr;
    }
    g_pool.chunk   = size_t (chunk);
    g_pool.order   = int (order);
    g_pool.threads = size_t (threads);
    PyImath::WorkerPool::setCurrentPool (&g_pool);
    Py_RETURN_NONE;
}

PyObject*
py_uninstall (PyObject*, PyObject*)
{
    PyImath::WorkerPool::setCurrentPool (nullptr);
    Py_RETURN_NONE;
}

PyObject*
py_dispatches (PyObject*, PyObject*)
{
    return PyLong_FromSize_t (g_pool.nDispatch.load ());
}

PyObject*
py_subranges (PyObject*, PyObject*)
{
    return PyLong_FromSize_t (g_pool.nSub.load ());
}

PyMethodDef methods[] = {
    {"install", py_install, METH_VARARGS, "install(chunk, order, threads)"},
    {"uninstall", py_uninstall, METH_NOARGS, "remove the pool"},
    {"dispatches", py_dispatches, METH_NOARGS, "number of dispatch() calls"},
    {"subranges", py_subranges, METH_NOARGS, "number of executed sub-ranges"},
    {nullptr, nullptr, 0, nullptr}};

PyModuleDef moduledef = {
    PyModuleDef_HEAD_INIT, "demopool", "demo WorkerPool", -1, methods,
    nullptr, nullptr, nullptr, nullptr};

} // namespace

PyMODINIT_FUNC
PyInit_demopool (void)
{
    return PyModule_Create (&moduledef);
}
