#!/bin/sh
# Build and run the demonstration against the bindings built in /tmp/wt-n20/_bp.
#
#   1. build the bindings (a few minutes):
#        cmake -S /tmp/wt-n20 -B /tmp/wt-n20/_bp -G Ninja -DCMAKE_BUILD_TYPE=Release \
#              -DPYTHON=ON -DBUILD_TESTING=OFF -DPython3_EXECUTABLE=/usr/bin/python3.11 \
#              -DPython_EXECUTABLE=/usr/bin/python3.11 -DPython3_FIND_STRATEGY=LOCATION
#        cmake --build /tmp/wt-n20/_bp -j8
#   2. sh /tmp/wt-n20/_control/run.sh
#
# To run it WITHOUT the changes (it passes both ways), build an unpatched copy
# of the sources next to the patched build and point BP at it:
#        mkdir -p /tmp/wt-n20/_base_src && git -C /tmp/wt-n20 archive HEAD | tar -x -C /tmp/wt-n20/_base_src
#        cmake -S /tmp/wt-n20/_base_src -B /tmp/wt-n20/_bp_base -G Ninja <same options as above>
#        cmake --build /tmp/wt-n20/_bp_base -j8
#        BP=/tmp/wt-n20/_bp_base OUT=/tmp/wt-n20/_control/_build_base sh /tmp/wt-n20/_control/run.sh
set -e
WT=/tmp/wt-n20
BP=${BP:-$WT/_bp}
CTL=$WT/_control
OUT=${OUT:-$CTL/_build}
mkdir -p "$OUT"

# the pool seam: a plain CPython extension linked against libPyImath
g++ -std=c++17 -O2 -fPIC -shared -pthread \
    -I/usr/include/python3.11 \
    -I$WT/src/python/PyImath -I$BP/config -I$BP/src/python/PyImath \
    "$CTL/demopool.cpp" \
    -L$BP/src/python/PyImath -lPyImath_Python3_11-3_2 \
    -o "$OUT/demopool.so"

PYTHONPATH=$BP/python3_11:$OUT \
LD_LIBRARY_PATH=$BP/src/Imath:$BP/src/python/PyImath \
    /usr/bin/python3.11 "$CTL/demo.py"
