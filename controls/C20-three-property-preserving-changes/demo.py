#!/usr/bin/env python3.11
# Demonstration for property C20 on the code paths touched by patch.diff:
#
#   * dispatchTask (PyImathTask.cpp): every vectorised entry point goes
#     through it; lengths 0 and around 200 and around 1024 are used
#   * measure_arguments / match_lengths (PyImathAutovectorize.h): mismatched
#     array lengths must raise (any exception type, any message) and must
#     leave the operands alone
#   * Box.extendBy(array) (PyImathBox.cpp): a reduction that uses the thread id
#
# It checks the clauses of the property, not equality with an older build:
#   (1) every array result equals, element by element, what the scalar
#       binding gives (identical: everything used here runs the same C++
#       function or is an integer/bool result),
#   (2) the result is bit-for-bit the same with no pool and under every pool
#       schedule (sub-range size, execution order, real threads),
#   (3) mismatched lengths raise.
# It deliberately does NOT assert whether or when the pool is consulted.

import random
import struct
import sys

import imath
import demopool

LENGTHS = [0, 1, 2, 199, 200, 201, 257, 1023, 1024, 1025, 2500]

# (chunk, order, threads); None = no pool installed
SCHEDULES = [
    None,
    (1, 0, 0),
    (7, 1, 0),
    (64, 2, 0),
    (50, 0, 3),
    (13, 1, 4),
    (1000, 2, 2),
    (100000, 0, 2),
]

failures = []
checks = 0


def bits(x):
    """Bit-exact, NaN-safe key for a python float / int / imath value."""
    if isinstance(x, float):
        return struct.pack("<d", x)
    if isinstance(x, int):
        return x
    if isinstance(x, (tuple, list)):
        return tuple(bits(v) for v in x)
    # V2*/V3*/V4*/Quat*/M44*: fall back on their component tuples
    if hasattr(x, "toMatrix44") and hasattr(x, "r"):
        v = x.v()
        return (bits(x.r()), bits(v.x), bits(v.y), bits(v.z))
    if hasattr(x, "x"):
        comps = [x.x, x.y]
        if hasattr(x, "z"):
            comps.append(x.z)
        if hasattr(x, "w"):
            comps.append(x.w)
        return tuple(bits(c) for c in comps)
    if hasattr(x, "min") and hasattr(x, "max") and callable(x.min):
        return (bits(x.min()), bits(x.max()))
    raise TypeError("no key for %r" % (x,))


def aslist(a):
    return [bits(a[i]) for i in range(len(a))]


def check(name, n, sched, got, want):
    global checks
    checks += 1
    if got != want:
        bad = [i for i in range(min(len(got), len(want))) if got[i] != want[i]]
        failures.append(
            "%s: len=%d schedule=%s: %d/%d positions differ (first %s), "
            "lengths %d vs %d"
            % (name, n, sched, len(bad), len(want), bad[:3], len(got), len(want))
        )


def use(sched):
    if sched is None:
        demopool.uninstall()
    else:
        demopool.install(*sched)


# --------------------------------------------------------------------------
# data
# --------------------------------------------------------------------------

def make_data(n, seed):
    rnd = random.Random(seed)
    d = {}
    d["xs"] = [rnd.uniform(-4.0, 4.0) for _ in range(n)]
    d["ys"] = [rnd.choice([-1, 1]) * rnd.uniform(0.25, 4.0) for _ in range(n)]
    d["ts"] = [rnd.uniform(0.0, 1.0) for _ in range(n)]
    d["is"] = [rnd.randint(-1000, 1000) for _ in range(n)]
    d["js"] = [rnd.randint(1, 37) for _ in range(n)]
    d["ms"] = [1 if rnd.random() < 0.6 else 0 for _ in range(n)]
    d["ps"] = [(rnd.uniform(-3, 3), rnd.uniform(-3, 3), rnd.uniform(-3, 3))
               for _ in range(n)]
    d["qs"] = [(rnd.uniform(-3, 3), rnd.uniform(-3, 3), rnd.uniform(-3, 3))
               for _ in range(n)]
    # make some exact ties and special values show up
    if n > 5:
        d["xs"][3] = d["xs"][1]
        d["ps"][4] = d["ps"][2]
        d["xs"][5] = 0.0
    return d


def darr(vals):
    a = imath.DoubleArray(len(vals))
    for i, v in enumerate(vals):
        a[i] = v
    return a


def iarr(vals):
    a = imath.IntArray(len(vals))
    for i, v in enumerate(vals):
        a[i] = v
    return a


def v3arr(vals):
    a = imath.V3dArray(len(vals))
    for i, v in enumerate(vals):
        a[i] = imath.V3d(*v)
    return a


# --------------------------------------------------------------------------
# the operations: each returns (vectorised result as key list,
#                               scalar reference as key list)
# --------------------------------------------------------------------------

def ops_for(d):
    n = len(d["xs"])
    R = range(n)
    xs, ys, ts, is_, js, ms = d["xs"], d["ys"], d["ts"], d["is"], d["js"], d["ms"]
    ps, qs = d["ps"], d["qs"]
    sel = [i for i in R if ms[i]]

    def V(t):
        return imath.V3d(*t)

    out = []

    def op(name, vec, ref):
        out.append((name, vec, ref))

    # -- arithmetic / comparison operators: array (op) array, array (op) scalar
    op("d+d", lambda: aslist(darr(xs) + darr(ys)), lambda: [bits(xs[i] + ys[i]) for i in R])
    op("d-d", lambda: aslist(darr(xs) - darr(ys)), lambda: [bits(xs[i] - ys[i]) for i in R])
    op("d*d", lambda: aslist(darr(xs) * darr(ys)), lambda: [bits(xs[i] * ys[i]) for i in R])
    op("d/d", lambda: aslist(darr(xs) / darr(ys)), lambda: [bits(xs[i] / ys[i]) for i in R])
    op("d+s", lambda: aslist(darr(xs) + 1.25), lambda: [bits(xs[i] + 1.25) for i in R])
    op("s-d", lambda: aslist(2.5 - darr(xs)), lambda: [bits(2.5 - xs[i]) for i in R])
    op("-d", lambda: aslist(-darr(xs)), lambda: [bits(-xs[i]) for i in R])
    op("d<d", lambda: aslist(darr(xs) < darr(ys)), lambda: [int(xs[i] < ys[i]) for i in R])
    op("d==s", lambda: aslist(darr(xs) == 0.0), lambda: [int(xs[i] == 0.0) for i in R])
    op("i+i", lambda: aslist(iarr(is_) + iarr(js)), lambda: [is_[i] + js[i] for i in R])
    op("i*s", lambda: aslist(iarr(is_) * 3), lambda: [is_[i] * 3 for i in R])
    op("i%i", lambda: aslist(iarr([abs(v) for v in is_]) % iarr(js)),
       lambda: [abs(is_[i]) % js[i] for i in R])
    op("i>=i", lambda: aslist(iarr(is_) >= iarr(js)), lambda: [int(is_[i] >= js[i]) for i in R])

    # -- masked references as arguments
    def masked_add():
        a, b, m = darr(xs), darr(ys), iarr(ms)
        return aslist(a[m] + b[m])
    op("d[m]+d[m]", masked_add, lambda: [bits(xs[i] + ys[i]) for i in sel])

    def masked_mixed():
        a, m = darr(xs), iarr(ms)
        return aslist(a[m] * 0.5)
    op("d[m]*s", masked_mixed, lambda: [bits(xs[i] * 0.5) for i in sel])

    # -- math functions (double overloads: array and scalar run the same op)
    op("sin", lambda: aslist(imath.sin(darr(xs))), lambda: [bits(imath.sin(xs[i])) for i in R])
    op("cos", lambda: aslist(imath.cos(darr(xs))), lambda: [bits(imath.cos(xs[i])) for i in R])
    op("abs", lambda: aslist(imath.abs(darr(xs))), lambda: [bits(imath.abs(xs[i])) for i in R])
    op("atan2(a,a)", lambda: aslist(imath.atan2(darr(xs), darr(ys))),
       lambda: [bits(imath.atan2(xs[i], ys[i])) for i in R])
    op("atan2(a,s)", lambda: aslist(imath.atan2(darr(xs), 0.75)),
       lambda: [bits(imath.atan2(xs[i], 0.75)) for i in R])
    op("lerp(a,a,a)", lambda: aslist(imath.lerp(darr(xs), darr(ys), darr(ts))),
       lambda: [bits(imath.lerp(xs[i], ys[i], ts[i])) for i in R])
    op("lerp(a,s,a)", lambda: aslist(imath.lerp(darr(xs), 2.0, darr(ts))),
       lambda: [bits(imath.lerp(xs[i], 2.0, ts[i])) for i in R])
    op("clamp(a,s,s)", lambda: aslist(imath.clamp(darr(xs), -1.0, 1.5)),
       lambda: [bits(imath.clamp(xs[i], -1.0, 1.5)) for i in R])
    op("divp", lambda: aslist(imath.divp(iarr(is_), iarr(js))),
       lambda: [imath.divp(is_[i], js[i]) for i in R])
    op("mods", lambda: aslist(imath.mods(iarr(is_), iarr(js))),
       lambda: [imath.mods(is_[i], js[i]) for i in R])

    def masked_fun():
        a, m = darr(xs), iarr(ms)
        return aslist(imath.sin(a[m]))
    op("sin(d[m])", masked_fun, lambda: [bits(imath.sin(xs[i])) for i in sel])

    # -- vector array methods
    op("v+v", lambda: aslist(v3arr(ps) + v3arr(qs)), lambda: [bits(V(ps[i]) + V(qs[i])) for i in R])
    op("v*s", lambda: aslist(v3arr(ps) * 1.5), lambda: [bits(V(ps[i]) * 1.5) for i in R])
    op("v.dot(v)", lambda: aslist(v3arr(ps).dot(v3arr(qs))),
       lambda: [bits(V(ps[i]).dot(V(qs[i]))) for i in R])
    op("v.dot(s)", lambda: aslist(v3arr(ps).dot(imath.V3d(1, 2, 3))),
       lambda: [bits(V(ps[i]).dot(imath.V3d(1, 2, 3))) for i in R])
    op("v.cross(v)", lambda: aslist(v3arr(ps).cross(v3arr(qs))),
       lambda: [bits(V(ps[i]).cross(V(qs[i]))) for i in R])
    op("v.length()", lambda: aslist(v3arr(ps).length()), lambda: [bits(V(ps[i]).length()) for i in R])
    op("v.normalized()", lambda: aslist(v3arr(ps).normalized()),
       lambda: [bits(V(ps[i]).normalized()) for i in R])

    # -- in-place operations, plain and masked
    def iadd():
        a = darr(xs)
        a += darr(ys)
        return aslist(a)
    op("d+=d", iadd, lambda: [bits(xs[i] + ys[i]) for i in R])

    def imul_s():
        a = darr(xs)
        a *= 3.0
        return aslist(a)
    op("d*=s", imul_s, lambda: [bits(xs[i] * 3.0) for i in R])

    def iadd_masked_both():
        a, b, m = darr(xs), darr(ys), iarr(ms)
        am = a[m]
        am += b[m]
        return aslist(a)
    op("d[m]+=d[m]", iadd_masked_both,
       lambda: [bits(xs[i] + ys[i]) if ms[i] else bits(xs[i]) for i in R])

    def isub_masked_unmasked():
        a, b, m = darr(xs), darr(ys), iarr(ms)
        am = a[m]
        am -= b          # right hand side as long as the unmasked array
        return aslist(a)
    op("d[m]-=d", isub_masked_unmasked,
       lambda: [bits(xs[i] - ys[i]) if ms[i] else bits(xs[i]) for i in R])

    def vnormalize():
        a = v3arr(ps)
        a.normalize()
        return aslist(a)

    def vnormalize_ref():
        res = []
        for i in R:
            v = V(ps[i])
            v.normalize()
            res.append(bits(v))
        return res
    op("v.normalize()", vnormalize, vnormalize_ref)

    # -- box / matrix / quaternion array methods
    def box_extend():
        b = imath.Box3d()
        b.extendBy(v3arr(ps))
        return [bits(b.min()), bits(b.max())]

    def box_extend_ref():
        b = imath.Box3d()
        for i in R:
            b.extendBy(V(ps[i]))
        return [bits(b.min()), bits(b.max())]
    op("box.extendBy(va)", box_extend, box_extend_ref)

    def box_extend_nonempty():
        b = imath.Box3d(imath.V3d(-0.5, -0.5, -0.5), imath.V3d(0.5, 4.0, 0.5))
        b.extendBy(v3arr(ps))
        b.extendBy(v3arr(qs))
        return [bits(b.min()), bits(b.max())]

    def box_extend_nonempty_ref():
        b = imath.Box3d(imath.V3d(-0.5, -0.5, -0.5), imath.V3d(0.5, 4.0, 0.5))
        for i in R:
            b.extendBy(V(ps[i]))
        for i in R:
            b.extendBy(V(qs[i]))
        return [bits(b.min()), bits(b.max())]
    op("box.extendBy(va) twice", box_extend_nonempty, box_extend_nonempty_ref)

    def box_extend_masked():
        b = imath.Box3d()
        b.extendBy(v3arr(ps)[iarr(ms)])
        return [bits(b.min()), bits(b.max())]

    def box_extend_masked_ref():
        b = imath.Box3d()
        for i in sel:
            b.extendBy(V(ps[i]))
        return [bits(b.min()), bits(b.max())]
    op("box.extendBy(va[m])", box_extend_masked, box_extend_masked_ref)

    # the extremes sit at one chosen position each, so that a sub-range that
    # got lost or merged wrongly cannot go unnoticed
    for k in sorted(set([0, n // 2, n - 1, 130, 1030]) & set(R)):
        k2 = (k * 7 + 3) % n
        spiked = list(ps)
        spiked[k] = (100.0 + k, 200.0 + k, 300.0 + k)
        spiked[k2] = (-100.0 - k, spiked[k2][1], -300.0 - k)

        def spike_vec(spiked=spiked):
            b = imath.Box3d()
            b.extendBy(v3arr(spiked))
            return [bits(b.min()), bits(b.max())]

        def spike_ref(spiked=spiked):
            b = imath.Box3d()
            for t in spiked:
                b.extendBy(V(t))
            return [bits(b.min()), bits(b.max())]
        op("box.extendBy(va) extremes at %d,%d" % (k, k2), spike_vec, spike_ref)

    bx = imath.Box3d(imath.V3d(-1, -1, -1), imath.V3d(1, 2, 1.5))
    op("box.intersects(va)", lambda: aslist(bx.intersects(v3arr(ps))),
       lambda: [int(bx.intersects(V(ps[i]))) for i in R])

    m44 = imath.M44d()
    m44.setAxisAngle(imath.V3d(0.3, 0.5, 0.8).normalized(), 0.7)
    m44.translate(imath.V3d(1, -2, 3))

    def m44_ref():
        res = []
        for i in R:
            dst = imath.V3d()
            m44.multVecMatrix(V(ps[i]), dst)
            res.append(bits(dst))
        return res
    op("m.multVecMatrix(va)", lambda: aslist(m44.multVecMatrix(v3arr(ps))), m44_ref)

    return out


def mismatch_checks(n, sched):
    """argument arrays of mismatched length raise (whatever the type)."""
    global checks
    a = darr([float(i) for i in range(n)])
    longer = darr([1.0] * (n + 1))
    va = v3arr([(1.0, 2.0, 3.0)] * n)
    vlonger = v3arr([(1.0, 2.0, 3.0)] * (n + 3))
    before = aslist(a)

    def expect_raise(name, f):
        global checks
        checks += 1
        try:
            f()
        except Exception:
            return
        failures.append("%s: len=%d schedule=%s: no exception" % (name, n, sched))

    def iadd():
        b = darr([float(i) for i in range(n)])
        b += longer

    expect_raise("a+longer", lambda: a + longer)
    expect_raise("longer<a", lambda: longer < a)
    expect_raise("atan2(a,longer)", lambda: imath.atan2(a, longer))
    expect_raise("lerp(a,longer,a)", lambda: imath.lerp(a, longer, a))
    expect_raise("lerp(a,s,longer)", lambda: imath.lerp(a, 1.0, longer))
    expect_raise("a+=longer", iadd)
    expect_raise("va.dot(vlonger)", lambda: va.dot(vlonger))
    expect_raise("va.cross(vlonger)", lambda: va.cross(vlonger))
    checks += 1
    if aslist(a) != before:
        failures.append("mismatch: len=%d schedule=%s: operand modified" % (n, sched))


def main():
    total_ops = 0
    for n in LENGTHS:
        d = make_data(n, 1000 + n)
        ops = ops_for(d)
        total_ops = len(ops)
        for name, vec, ref in ops:
            demopool.uninstall()
            want = ref()
            first = None
            for sched in SCHEDULES:
                use(sched)
                try:
                    got = vec()
                finally:
                    demopool.uninstall()
                # (1) equals the scalar bindings element by element
                check(name + " vs scalar", n, sched, got, want)
                # (2) identical under every schedule
                if first is None:
                    first = got
                else:
                    check(name + " vs no-pool run", n, sched, got, first)
        for sched in SCHEDULES:
            use(sched)
            try:
                mismatch_checks(n, sched)
            finally:
                demopool.uninstall()

    print("operations per length: %d, lengths: %s, schedules: %d"
          % (total_ops, LENGTHS, len(SCHEDULES)))
    print("pool dispatch() calls: %d, sub-ranges executed: %d (informational)"
          % (demopool.dispatches(), demopool.subranges()))
    print("checks: %d, failures: %d" % (checks, len(failures)))
    for f in failures[:40]:
        print("FAIL", f)
    if failures:
        print("DEMO FAILED")
        return 1
    print("DEMO PASSED")
    return 0


if __name__ == "__main__":
    sys.exit(main())
