#!/usr/bin/env python3
#
# Demonstration for the control change set n19 (property C19).
#
# It exercises the three changed code paths
#   1. FixedArray masking constructors (index table construction; masking of
#      an already masked reference),
#   2. FixedMatrix.__setitem__(slice, matrix)  (row-wise copy, staging of an
#      aliased source),
#   3. ...ArrayFromBuffer (strided sources),
# and checks the clauses of the property on them against plain Python lists.
# It does NOT compare with the previous implementation: where the property
# leaves the behaviour open (an operation may be refused with an exception, or
# be carried out), both outcomes are accepted - but a refusal must leave the
# data untouched and an accepted operation must act exactly like the Python
# list model.
#
import array
import gc
import itertools
import sys

import imath

checks = 0
accepted = {"nested-mask": 0, "strided-import": 0}
refused = {"nested-mask": 0, "strided-import": 0}


def check(cond, what):
    global checks
    checks += 1
    if not cond:
        raise AssertionError(what)


def raises(fn, what, types=(Exception,)):
    global checks
    checks += 1
    try:
        fn()
    except types:
        return
    raise AssertionError("no exception: " + what)


def mk_mask(bits):
    m = imath.IntArray(len(bits))
    for i, b in enumerate(bits):
        m[i] = b
    return m


# ---------------------------------------------------------------------------
# 1. masked references, including masked references of masked references
# ---------------------------------------------------------------------------

def v3(i):
    return imath.V3f(i, i + 0.5, -i)


ARRAY_TYPES = [
    (imath.IntArray, lambda i: 10 * i + 1, lambda i: 1000 + i),
    (imath.FloatArray, lambda i: i + 0.25, lambda i: -100.5 - i),
    (imath.DoubleArray, lambda i: i + 0.125, lambda i: 77.0 + i),
    (imath.V3fArray, v3, lambda i: imath.V3f(-7, i, 7)),
]


def fill(cls, gen, n):
    a = cls(n)
    for i in range(n):
        a[i] = gen(i)
    return a, [gen(i) for i in range(n)]


def same(a, model, what):
    check(len(a) == len(model), what + ": len")
    check([a[i] for i in range(len(a))] == model, what + ": elements")
    n = len(model)
    for i in range(-n, 0):
        check(a[i] == model[i], what + ": negative index")
    raises(lambda: a[n], what + ": index n", (IndexError,))
    raises(lambda: a[-n - 1], what + ": index -n-1", (IndexError,))


def test_masks(maxlen):
    for cls, gen, alt in ARRAY_TYPES:
        for n in range(maxlen + 1):
            for bits in itertools.product((0, 1), repeat=n):
                a, model = fill(cls, gen, n)
                sel = [i for i in range(n) if bits[i]]
                r = a[mk_mask(bits)]
                same(r, [model[i] for i in sel], "masked reference")
                same(a, model, "masked reference leaves source alone")

                # wrong mask lengths are refused
                raises(lambda: a[mk_mask([1] * (n + 1))], "mask too long")
                if n > 0:
                    raises(lambda: a[mk_mask([1] * (n - 1))], "mask too short")

                # writes through the reference land on the selected elements
                for k in range(len(sel)):
                    r[k] = alt(k)
                    model[sel[k]] = alt(k)
                same(a, model, "write through masked reference")

                # slice of a masked reference is a copy of the selected ones
                same(r[::-1], [model[i] for i in sel][::-1], "slice of masked reference")

                test_nested(cls, gen, alt, n, bits)


def test_nested(cls, gen, alt, n, bits):
    sel = [i for i in range(n) if bits[i]]
    for bits2 in itertools.product((0, 1), repeat=len(sel)):
        a, model = fill(cls, gen, n)
        before = list(model)
        r = a[mk_mask(bits)]
        try:
            rr = r[mk_mask(bits2)]
        except Exception:
            # Refused: allowed, but nothing may have changed.
            refused["nested-mask"] += 1
            same(a, before, "refused nested mask leaves data alone")
            continue
        accepted["nested-mask"] += 1
        sel2 = [sel[k] for k in range(len(sel)) if bits2[k]]
        same(rr, [model[i] for i in sel2], "nested masked reference reads")
        same(a, before, "nested masking does not write")

        # a mask of the wrong length is refused
        raises(lambda: r[mk_mask([1] * (len(sel) + 1))], "nested mask too long")

        # element writes
        for k in range(len(sel2)):
            rr[k] = alt(k)
            model[sel2[k]] = alt(k)
        same(a, model, "element write through nested reference")
        same(r, [model[i] for i in sel], "outer reference sees the write")

        # slice (scalar) write
        rr[::2] = alt(50)
        for k in range(0, len(sel2), 2):
            model[sel2[k]] = alt(50)
        same(a, model, "slice write through nested reference")

        # array write
        src, srcmodel = fill(cls, lambda i: alt(60 + i), len(sel2))
        rr[:] = src
        for k in range(len(sel2)):
            model[sel2[k]] = srcmodel[k]
        same(a, model, "array write through nested reference")
        if len(sel2) > 0:
            short, _ = fill(cls, gen, len(sel2) - 1)
            snapshot = list(model)

            def bad():
                rr[:] = short
            raises(bad, "array write of the wrong length")
            same(a, snapshot, "refused array write leaves data alone")

        # in-place arithmetic (vectorized masked access)
        if cls is not imath.V3fArray:
            rr += rr
            for i in sel2:
                model[i] = model[i] + model[i]
            same(a, model, "in-place op through nested reference")

        # the reference keeps the storage alive
        expect = [model[i] for i in sel2]
        del a, r
        gc.collect()
        junk = [cls(64) for _ in range(8)]
        same(rr, expect, "nested reference outlives its sources")
        del junk

        # read-only source: every derived reference refuses writes
        a, model = fill(cls, gen, n)
        a.makeReadOnly()
        r = a[mk_mask(bits)]
        try:
            rr = r[mk_mask(bits2)]
        except Exception:
            same(a, model, "refused nested mask (read-only)")
            continue
        check(not rr.writable(), "nested reference of read-only array is read-only")
        same(rr, [model[i] for i in sel2], "nested read-only reference reads")
        for k in range(len(sel2)):
            def w():
                rr[k] = alt(k)
            raises(w, "write through read-only nested reference")

        def ws():
            rr[:] = alt(1)
        raises(ws, "slice write through read-only nested reference")
        if cls is not imath.V3fArray:
            def wi():
                x = rr
                x += x
            raises(wi, "in-place op through read-only nested reference")
        same(a, model, "read-only data unchanged")


# ---------------------------------------------------------------------------
# 2. FixedMatrix slice assignment from a matrix
# ---------------------------------------------------------------------------

def mat(cls, rows, cols, base):
    m = cls(rows, cols)
    model = []
    for i in range(rows):
        row = []
        for j in range(cols):
            v = base + 10 * i + j
            m[i][j] = v
            row.append(v)
        model.append(row)
    return m, model


def mat_same(m, model, cols, what):
    check(len(m) == len(model), what + ": rows")
    check(m.rows() == len(model) and m.columns() == cols, what + ": shape")
    got = [[m[i][j] for j in range(cols)] for i in range(len(model))]
    check(got == model, what + ": elements %r != %r" % (got, model))


def test_matrix(maxrows, maxcols):
    bounds = [None] + list(range(-maxrows - 1, maxrows + 2))
    for cls in (imath.IntMatrix, imath.FloatMatrix, imath.DoubleMatrix):
        for rows in range(maxrows + 1):
            for cols in range(maxcols + 1):
                for start in bounds:
                    for stop in bounds:
                        for step in (None, 1, 2, 3):
                            s = slice(start, stop, step)
                            m, model = mat(cls, rows, cols, 100)
                            k = len(range(*s.indices(rows)))
                            src, srcmodel = mat(cls, k, cols, 500)
                            m[s] = src
                            model[s] = [list(r) for r in srcmodel]
                            mat_same(m, model, cols, "matrix slice assignment")
                            mat_same(src, srcmodel, cols, "source untouched")
                            mat_same(m[s], srcmodel, cols, "matrix slice read")

                            # mismatched shapes are refused, nothing is written
                            snapshot = [list(r) for r in model]
                            wrong, _ = mat(cls, k + 1, cols, 900)

                            def bad_rows():
                                m[s] = wrong
                            raises(bad_rows, "row count mismatch")
                            wrong2, _ = mat(cls, k, cols + 1, 900)

                            def bad_cols():
                                m[s] = wrong2
                            raises(bad_cols, "column count mismatch")
                            mat_same(m, snapshot, cols, "refused assignment leaves data alone")

                # the matrix as its own source, forward: m[:] = m is the identity
                m, model = mat(cls, rows, cols, 100)
                m[:] = m
                mat_same(m, model, cols, "m[:] = m")
                m[0:rows] = m
                mat_same(m, model, cols, "m[0:rows] = m")

                # backward self assignment is not constrained by the property
                # (forward slices only); it must stay inside the matrix: every
                # resulting row is one of the original rows.
                m, model = mat(cls, rows, cols, 100)
                m[::-1] = m
                got = [[m[i][j] for j in range(cols)] for i in range(rows)]
                check(len(m) == rows and all(r in model for r in got), "m[::-1] = m stays inside")

                # rows stay valid after the matrix is gone
                if rows > 0 and cols > 0:
                    m, model = mat(cls, rows, cols, 100)
                    src, srcmodel = mat(cls, rows, cols, 300)
                    m[:] = src
                    row = m[rows - 1]
                    del m, src
                    gc.collect()
                    junk = [cls(8, 8) for _ in range(4)]
                    check(list(row) == srcmodel[rows - 1], "row outlives matrix")
                    del junk


# ---------------------------------------------------------------------------
# 3. ...ArrayFromBuffer
# ---------------------------------------------------------------------------

def try_import(ctor, buf, expect, what, kind="strided-import"):
    """A non-contiguous source may be refused or imported; if imported it
    must hold exactly the source's elements."""
    try:
        out = ctor(buf)
    except ValueError:
        refused[kind] += 1
        return None
    accepted[kind] += 1
    check(len(out) == len(expect), what + ": len")
    check([out[i] for i in range(len(out))] == expect, what + ": elements")
    check(out.writable(), what + ": result is a writable copy")
    return out


def test_buffers(maxlen):
    scalar = [
        (imath.IntArrayFromBuffer, 'i', [3 * i - 7 for i in range(maxlen)]),
        (imath.FloatArrayFromBuffer, 'f', [i + 0.5 for i in range(maxlen)]),
        (imath.DoubleArrayFromBuffer, 'd', [i - 0.25 for i in range(maxlen)]),
    ]
    bounds = [None] + list(range(-maxlen - 1, maxlen + 2))
    for ctor, code, values in scalar:
        for n in range(maxlen + 1):
            src = array.array(code, values[:n])
            out = ctor(src)                       # contiguous: must work
            check(list(out) == list(src), "contiguous import")
            out2 = ctor(memoryview(src))
            check(list(out2) == list(src), "contiguous memoryview import")
            # the result is a copy
            if n:
                src[0] = values[0] + 1
                check(out[0] == values[0], "import is a copy")
                src[0] = values[0]
            for start in bounds:
                for stop in bounds:
                    for step in (1, 2, 3, -1, -2):
                        mv = memoryview(src)[start:stop:step]
                        expect = list(src)[start:stop:step]
                        if mv.c_contiguous:
                            check(list(ctor(mv)) == expect, "contiguous slice import")
                        else:
                            try_import(ctor, mv, expect, "strided slice import")
                        check(list(src) == values[:n], "source untouched")
            # wrong element types / sizes are always refused
            for other in 'bhiqfd':
                if other == code:
                    continue
                wrong = array.array(other, [1, 2, 3, 4, 5, 6, 7, 8])
                raises(lambda: ctor(wrong), "wrong element type " + other)
                raises(lambda: ctor(memoryview(wrong)[::2]), "wrong element type, strided " + other)
            raises(lambda: ctor(bytes(16)), "bytes")
            raises(lambda: ctor(memoryview(bytes(16))[::2]), "strided bytes")
            raises(lambda: ctor(12), "not a buffer")

    # component views of vector arrays are strided FixedArrays
    for n in range(maxlen + 1):
        v = imath.V3fArray(n)
        for i in range(n):
            v[i] = v3(i)
        for comp, name in ((lambda p: p.x, "x"), (lambda p: p.y, "y"), (lambda p: p.z, "z")):
            view = comp(v)
            expect = [comp(v3(i)) for i in range(n)]
            check(list(view) == expect, "component view")
            if n > 0:
                mv = memoryview(view)
                check(mv.nbytes == n * mv.itemsize and mv.shape == (n,), "export of component view: len = shape x itemsize")
                check(mv.tolist() == expect, "export of component view: elements")
                del mv
            try_import(imath.FloatArrayFromBuffer, view, expect, "import of ." + name)
            raises(lambda: imath.DoubleArrayFromBuffer(view), "component view, wrong type")
            raises(lambda: imath.IntArrayFromBuffer(view), "component view, wrong type")
            raises(lambda: imath.V3fArrayFromBuffer(view), "component view, wrong dimensions")
        check([v[i] for i in range(n)] == [v3(i) for i in range(n)], "source untouched")

        # 2-D: contiguous V3fArray, and the strided .min()/.max() views of a box array
        out = imath.V3fArrayFromBuffer(v)
        check([out[i] for i in range(n)] == [v3(i) for i in range(n)], "V3f import")
        if n > 0:
            mv = memoryview(v)
            check(mv.nbytes == n * 3 * 4 and mv.shape == (n, 3), "V3f export: len = shape x itemsize")
            flat = memoryview(bytes(mv)).cast('f')
            check(list(flat) == [c for i in range(n) for c in v3(i)], "V3f export: elements")
            raises(lambda: imath.V3fArrayFromBuffer(flat), "flat floats are not V3f")
            if (3 * n) % 2 == 0:
                raises(lambda: imath.V3fArrayFromBuffer(flat.cast('B').cast('f', shape=[3 * n // 2, 2])), "inner extent 2")
            good = flat.cast('B').cast('f', shape=[n, 3])
            out = imath.V3fArrayFromBuffer(good)
            check([out[i] for i in range(n)] == [v3(i) for i in range(n)], "V3f import from 2-D memoryview")
            raises(lambda: imath.V3dArrayFromBuffer(good), "V3d from floats")
            raises(lambda: imath.V3iArrayFromBuffer(good), "V3i from floats")
            raises(lambda: imath.V2fArrayFromBuffer(good), "V2f from n x 3")
            raises(lambda: imath.V4fArrayFromBuffer(good), "V4f from n x 3")
            del mv, flat, good

        b = imath.Box3fArray(n)
        for i in range(n):
            b[i] = imath.Box3f(v3(i), v3(i) + imath.V3f(1, 2, 3))
        if hasattr(b, "min"):
            lo = b.min if not callable(b.min) else b.min()
            hi = b.max if not callable(b.max) else b.max()
            try_import(imath.V3fArrayFromBuffer, lo, [v3(i) for i in range(n)], "import of box.min")
            try_import(imath.V3fArrayFromBuffer, hi, [v3(i) + imath.V3f(1, 2, 3) for i in range(n)], "import of box.max")
            raises(lambda: imath.V3dArrayFromBuffer(lo), "box.min, wrong type")
            raises(lambda: imath.FloatArrayFromBuffer(lo), "box.min, wrong dimensions")
            for i in range(n):
                check(b[i].min() == v3(i) and b[i].max() == v3(i) + imath.V3f(1, 2, 3), "boxes untouched")


def main():
    small = 4 if "--quick" in sys.argv else 5
    test_masks(small)
    test_matrix(3, 2)
    test_buffers(6)
    print("checks: %d" % checks)
    print("optional operations accepted: %r" % accepted)
    print("optional operations refused:  %r" % refused)
    print("PASS")


if __name__ == "__main__":
    main()
