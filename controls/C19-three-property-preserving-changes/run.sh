#!/bin/sh
# Build the Python bindings of the worktree and run the demonstration.
# (The same demo.py passes against a build of the unmodified checkout:
#  point PYTHONPATH / LD_LIBRARY_PATH at that build instead.)
set -e
WT=/tmp/wt-n19
cmake -S $WT -B $WT/_bp -G Ninja -DCMAKE_BUILD_TYPE=Release -DPYTHON=ON -DBUILD_TESTING=OFF \
      -DPython3_EXECUTABLE=/usr/bin/python3.11 -DPython_EXECUTABLE=/usr/bin/python3.11 \
      -DPython3_FIND_STRATEGY=LOCATION
cmake --build $WT/_bp -j8
PYTHONPATH=$WT/_bp/python3_11 \
LD_LIBRARY_PATH=$WT/_bp/src/Imath:$WT/_bp/src/python/PyImath \
    /usr/bin/python3.11 $WT/_control/demo.py "$@"
