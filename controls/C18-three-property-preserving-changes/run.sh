#!/bin/sh
# Build and run the C18 demonstration twice:
#   - against the sources in the worktree (with the three changes), and
#   - against the unmodified ImathRandom.h / ImathRandom.cpp from git HEAD.
# Both runs must print "DEMO PASS".
#
# Prerequisite: the library has been configured once, so that ImathConfig.h
# exists in /tmp/wt-n18/_b/config:
#   cmake -S /tmp/wt-n18 -B /tmp/wt-n18/_b -G Ninja -DCMAKE_BUILD_TYPE=Release
set -e
WT=/tmp/wt-n18
OUT=$WT/_control/_out
mkdir -p $OUT/base
CXXFLAGS="-std=c++17 -O2 -Wall"

# 1. changed sources
g++ $CXXFLAGS -I$WT/src/Imath -I$WT/_b/config \
    $WT/_control/demo.cpp $WT/src/Imath/ImathRandom.cpp -o $OUT/demo_changed
echo "== with the changes =="
$OUT/demo_changed

# 2. baseline: the two anchored files as committed, everything else as is
git -C $WT show HEAD:src/Imath/ImathRandom.h   > $OUT/base/ImathRandom.h
git -C $WT show HEAD:src/Imath/ImathRandom.cpp > $OUT/base/ImathRandom.cpp
g++ $CXXFLAGS -I$OUT/base -I$WT/src/Imath -I$WT/_b/config \
    $WT/_control/demo.cpp $OUT/base/ImathRandom.cpp -o $OUT/demo_base
echo "== without the changes (git HEAD) =="
$OUT/demo_base
