//
// Demonstration for property C18:
//   "Random generators are deterministic, range-correct and rand48-compatible"
//
// It checks the clauses of the property itself (against POSIX rand48, against
// documented ranges, against geometry), never equality with a previous
// implementation of Imath.  It therefore has to pass both on the unmodified
// sources and on the sources with the three changes applied.
//
// Exit status 0 and a final line "DEMO PASS" mean that every check held.
//

#include <ImathRandom.h>
#include <ImathVec.h>

#include <cfloat>
#include <cmath>
#include <cstdint>
#include <cstdio>
#include <cstring>
#include <stdlib.h>
#include <vector>

namespace IM = IMATH_INTERNAL_NAMESPACE;

static long g_checks   = 0;
static long g_failures = 0;

#define CHECK(cond, ...)                                                       \
    do                                                                         \
    {                                                                          \
        ++g_checks;                                                            \
        if (!(cond))                                                           \
        {                                                                      \
            if (++g_failures <= 20)                                            \
            {                                                                  \
                std::printf ("FAIL %s:%d: %s : ", __FILE__, __LINE__, #cond);  \
                std::printf (__VA_ARGS__);                                     \
                std::printf ("\n");                                            \
            }                                                                  \
        }                                                                      \
    } while (0)

// Driver PRNG, independent of the code under test.
struct SplitMix
{
    uint64_t s;
    explicit SplitMix (uint64_t seed) : s (seed) {}
    uint64_t next ()
    {
        uint64_t z = (s += 0x9e3779b97f4a7c15ULL);
        z          = (z ^ (z >> 30)) * 0xbf58476d1ce4e5b9ULL;
        z          = (z ^ (z >> 27)) * 0x94d049bb133111ebULL;
        return z ^ (z >> 31);
    }
};

static const uint64_t M48 = (uint64_t (1) << 48) - 1;

static void
unpack (uint64_t x, unsigned short s[3])
{
    s[0] = (unsigned short) x;
    s[1] = (unsigned short) (x >> 16);
    s[2] = (unsigned short) (x >> 32);
}

static uint64_t
pack (const unsigned short s[3])
{
    return (uint64_t (s[2]) << 32) | (uint64_t (s[1]) << 16) | uint64_t (s[0]);
}

//----------------------------------------------------------------------------
// 1. nrand48 / erand48 / lrand48 / drand48 / srand48 against POSIX
//----------------------------------------------------------------------------

static void
checkOneState (uint64_t x)
{
    const double two_m48 = std::ldexp (1.0, -48);

    unsigned short a[3], b[3];

    unpack (x, a);
    unpack (x, b);
    long ia = IM::nrand48 (a);
    long ib = ::nrand48 (b);
    CHECK (ia == ib, "nrand48 value, state %012llx", (unsigned long long) x);
    CHECK (ia >= 0 && ia <= 0x7fffffffL, "nrand48 range");
    CHECK (pack (a) == pack (b), "nrand48 successor, state %012llx",
           (unsigned long long) x);

    unpack (x, a);
    unpack (x, b);
    double da = IM::erand48 (a);
    double db = ::erand48 (b);
    CHECK (std::fabs (da - db) <= two_m48, "erand48 value %.17g vs %.17g, state %012llx",
           da, db, (unsigned long long) x);
    CHECK (da >= 0.0 && da < 1.0, "erand48 range %.17g", da);
    CHECK (pack (a) == pack (b), "erand48 successor, state %012llx",
           (unsigned long long) x);
}

static uint64_t
inverseMod64 (uint64_t a) // a odd
{
    uint64_t x = a;
    for (int i = 0; i < 6; ++i)
        x *= 2 - a * x;
    return x;
}

static void
testRand48AgainstPosix ()
{
    std::printf ("1. rand48 family against POSIX\n");

    // Boundary states, including the predecessors of the states 0, 1,
    // 2^48-1, 2^47 and 2^47-1 (so that the *results* hit the boundaries:
    // erand48 == 0, erand48 == largest value, nrand48 == 0 / 0x7fffffff).
    std::vector<uint64_t> boundary = {
        0, 1, 2, 0xffff, 0x10000, 0xffffffffULL, 0x100000000ULL, 0x330e,
        M48, M48 - 1, uint64_t (1) << 47, (uint64_t (1) << 47) - 1,
        0x5deece66dULL, 0xb};

    const uint64_t A = 0x5deece66dULL, C = 0xb, Ainv = inverseMod64 (A);
    const uint64_t targets[] = {0, 1, M48, M48 - 1, uint64_t (1) << 47,
                                (uint64_t (1) << 47) - 1,
                                (uint64_t (1) << 17) - 1, uint64_t (1) << 17,
                                M48 & ~((uint64_t (1) << 17) - 1)};
    for (uint64_t t: targets)
    {
        uint64_t pred = ((t - C) * Ainv) & M48;
        CHECK (((A * pred + C) & M48) == t, "predecessor computation");
        boundary.push_back (pred);
    }

    for (uint64_t x: boundary)
        checkOneState (x);

    SplitMix sm (12345);
    for (int i = 0; i < 2000000; ++i)
        checkOneState (sm.next () & M48);

    // Mixed call sequences, explicit state and static state interleaved.
    const double two_m48 = std::ldexp (1.0, -48);
    for (int seq = 0; seq < 20000; ++seq)
    {
        unsigned short a[3], b[3];
        uint64_t       x = (seq < (int) boundary.size ()) ? boundary[seq]
                                                          : (sm.next () & M48);
        unpack (x, a);
        unpack (x, b);

        long seed = (long) sm.next ();
        if (seq % 3 == 0) seed = (long) (int32_t) sm.next ();
        IM::srand48 (seed);
        ::srand48 (seed);

        for (int k = 0; k < 24; ++k)
        {
            switch (sm.next () % 5)
            {
                case 0: {
                    long p = IM::nrand48 (a), q = ::nrand48 (b);
                    CHECK (p == q, "mixed nrand48");
                    break;
                }
                case 1: {
                    double p = IM::erand48 (a), q = ::erand48 (b);
                    CHECK (std::fabs (p - q) <= two_m48 && p >= 0 && p < 1,
                           "mixed erand48 %.17g %.17g", p, q);
                    break;
                }
                case 2: {
                    long p = IM::lrand48 (), q = ::lrand48 ();
                    CHECK (p == q, "mixed lrand48 %ld %ld (seed %ld)", p, q, seed);
                    break;
                }
                case 3: {
                    double p = IM::drand48 (), q = ::drand48 ();
                    CHECK (std::fabs (p - q) <= two_m48 && p >= 0 && p < 1,
                           "mixed drand48 %.17g %.17g", p, q);
                    break;
                }
                case 4: {
                    long s2 = (long) sm.next ();
                    IM::srand48 (s2);
                    ::srand48 (s2);
                    break;
                }
            }
            CHECK (pack (a) == pack (b), "mixed: explicit state diverged");
        }
        // the static states must still agree
        CHECK (IM::lrand48 () == ::lrand48 (), "mixed: static state diverged");
    }
}

//----------------------------------------------------------------------------
// 2. Rand32 / Rand48: pure function of the seed, ranges
//----------------------------------------------------------------------------

template <class T> struct Eps;
template <> struct Eps<float>  { static double v () { return FLT_EPSILON; } };
template <> struct Eps<double> { static double v () { return DBL_EPSILON; } };

template <class Rand, class F>
static void
checkRangeF (F r, F lo, F hi)
{
    F      mn  = lo < hi ? lo : hi;
    F      mx  = lo < hi ? hi : lo;
    double mag = std::fabs ((double) mn) > std::fabs ((double) mx)
                     ? std::fabs ((double) mn)
                     : std::fabs ((double) mx);
    double tol = Eps<F>::v () * mag; // "up to one rounding"
    CHECK (std::isfinite ((double) r), "nextf(a,b) finite");
    CHECK ((double) r >= (double) mn - tol && (double) r <= (double) mx + tol,
           "nextf(%g,%g) = %.17g", (double) lo, (double) hi, (double) r);
}

template <class Rand, class F, class I>
static void
testGeneratorClass (const char* name, I maxInt)
{
    std::printf ("2. %s: determinism and ranges\n", name);

    const F big = (F) std::ldexp (1.0, 60);
    const F fmax = sizeof (F) == 4 ? (F) FLT_MAX : (F) DBL_MAX;
    const F ranges[][2] = {{0, 1},        {-1, 1},    {5, 5},        {3, -2},
                           {-big, 1},     {-1, big},  {-fmax, fmax}, {(F) 1e-30, (F) 2e-30},
                           {(F) 0.1, (F) 0.1}, {-2, 3},  {fmax, fmax}, {0, 0}};
    const int nRanges = sizeof (ranges) / sizeof (ranges[0]);

    SplitMix                   sm (777);
    std::vector<unsigned long> seeds = {0UL, 1UL, 2UL, 0xffffffffUL, ~0UL,
                                        0x80000000UL, 0x7fffffffUL, 10UL, 145UL};
    for (int i = 0; i < 3000; ++i)
        seeds.push_back ((unsigned long) sm.next ());

    for (unsigned long seed: seeds)
    {
        Rand r1 (seed);
        Rand r2 (12345);
        r2.init (seed); // init() must be equivalent to construction
        Rand r3 (seed);
        Rand r4 (r3);   // a copy continues the same sequence

        SplitMix script (seed ^ 0xabcdef);
        for (int k = 0; k < 300; ++k)
        {
            switch (script.next () % 4)
            {
                case 0: {
                    bool b1 = r1.nextb (), b2 = r2.nextb (), b4 = r4.nextb ();
                    CHECK (b1 == b2 && b1 == b4, "nextb deterministic");
                    break;
                }
                case 1: {
                    I i1 = r1.nexti (), i2 = r2.nexti (), i4 = r4.nexti ();
                    CHECK (i1 == i2 && i1 == i4, "nexti deterministic");
                    CHECK (i1 >= 0 && i1 <= maxInt, "nexti range %lld", (long long) i1);
                    break;
                }
                case 2: {
                    F f1 = r1.nextf (), f2 = r2.nextf (), f4 = r4.nextf ();
                    CHECK (f1 == f2 && f1 == f4, "nextf deterministic");
                    CHECK (f1 >= 0 && f1 < 1, "nextf range %.17g", (double) f1);
                    break;
                }
                case 3: {
                    const F* ab = ranges[script.next () % nRanges];
                    F f1 = r1.nextf (ab[0], ab[1]);
                    F f2 = r2.nextf (ab[0], ab[1]);
                    F f4 = r4.nextf (ab[0], ab[1]);
                    CHECK (f1 == f2 && f1 == f4, "nextf(a,b) deterministic");
                    checkRangeF<Rand, F> (f1, ab[0], ab[1]);
                    break;
                }
            }
        }
    }

    // A long walk along one sequence: every position, not only the first few.
    {
        Rand r (0), rr (0);
        F    mn = 1, mx = 0;
        for (long k = 0; k < (1L << 25); ++k)
        {
            F f = r.nextf ();
            if (!(f >= 0 && f < 1)) CHECK (false, "long walk nextf range %.17g", (double) f);
            if (f < mn) mn = f;
            if (f > mx) mx = f;
            if ((k & 0xfff) == 0)
            {
                F g = rr.nextf ();
                for (int j = 1; j < 0x1000 && k + j < (1L << 25); ++j) rr.nextf ();
                CHECK (f == g, "long walk deterministic");
            }
        }
        ++g_checks;
        CHECK (mn < 1e-4 && mx > 0.9999, "long walk covers [0,1): %g %g", (double) mn, (double) mx);
    }
}

//----------------------------------------------------------------------------
// 3. Sphere samplers and Gaussian deviates
//----------------------------------------------------------------------------

template <class Vec>
static bool
finiteVec (const Vec& v)
{
    for (unsigned int i = 0; i < Vec::dimensions (); ++i)
        if (!std::isfinite ((double) v[i])) return false;
    return true;
}

template <class Vec>
static double
len2 (const Vec& v) // in double, independent of Vec::length()
{
    double s = 0;
    for (unsigned int i = 0; i < Vec::dimensions (); ++i)
        s += (double) v[i] * (double) v[i];
    return s;
}

template <class Vec>
static bool
sameBits (const Vec& a, const Vec& b)
{
    return std::memcmp (&a, &b, sizeof (Vec)) == 0;
}

template <class Vec, class Rand>
static void
testSamplers (const char* name)
{
    typedef typename Vec::BaseType T;
    const double                   eps = Eps<T>::v ();

    SplitMix                   sm (4242);
    std::vector<unsigned long> seeds = {0UL, 1UL, 2UL, 0xffffffffUL, ~0UL};
    for (int i = 0; i < 300; ++i)
        seeds.push_back ((unsigned long) sm.next ());

    double gsum = 0, gsum2 = 0;
    long   gn = 0;

    for (unsigned long seed: seeds)
    {
        Rand r1 (seed), r2 (seed);
        SplitMix script (seed + 99);

        for (int k = 0; k < 200; ++k)
        {
            switch (script.next () % 4)
            {
                case 0: {
                    Vec p = IM::solidSphereRand<Vec> (r1);
                    Vec q = IM::solidSphereRand<Vec> (r2);
                    CHECK (sameBits (p, q), "%s solid deterministic", name);
                    CHECK (finiteVec (p), "%s solid finite", name);
                    CHECK (len2 (p) <= 1 + 4 * eps, "%s solid inside ball: %.17g", name, len2 (p));
                    break;
                }
                case 1: {
                    Vec p = IM::hollowSphereRand<Vec> (r1);
                    Vec q = IM::hollowSphereRand<Vec> (r2);
                    CHECK (sameBits (p, q), "%s hollow deterministic", name);
                    CHECK (finiteVec (p), "%s hollow finite", name);
                    CHECK (std::fabs (len2 (p) - 1) <= 8 * eps, "%s hollow on sphere: %.17g", name, len2 (p));
                    break;
                }
                case 2: {
                    float p = IM::gaussRand (r1);
                    float q = IM::gaussRand (r2);
                    CHECK (std::memcmp (&p, &q, sizeof p) == 0, "%s gauss deterministic", name);
                    CHECK (std::isfinite (p), "%s gauss finite", name);
                    gsum += p; gsum2 += (double) p * p; ++gn;
                    break;
                }
                case 3: {
                    Vec p = IM::gaussSphereRand<Vec> (r1);
                    Vec q = IM::gaussSphereRand<Vec> (r2);
                    CHECK (sameBits (p, q), "%s gaussSphere deterministic", name);
                    CHECK (finiteVec (p), "%s gaussSphere finite", name);
                    break;
                }
            }
            // Both generators consumed the same number of draws.
            if ((k & 15) == 15)
                CHECK (r1.nexti () == r2.nexti (), "%s generators in step", name);
        }
    }

    // Loose sanity check of the Gaussian deviates (zero mean, unit variance).
    double mean = gsum / gn, var = gsum2 / gn - mean * mean;
    CHECK (std::fabs (mean) < 0.05 && std::fabs (var - 1) < 0.1,
           "%s gauss moments: mean %g var %g (n=%ld)", name, mean, var, gn);
}

int
main ()
{
    testRand48AgainstPosix ();

    testGeneratorClass<IM::Rand32, float, unsigned long> ("Rand32", 0xffffffffUL);
    testGeneratorClass<IM::Rand48, double, long> ("Rand48", 0x7fffffffL);

    std::printf ("3. sphere samplers and Gaussian deviates\n");
    testSamplers<IM::V2f, IM::Rand32> ("V2f/Rand32");
    testSamplers<IM::V3f, IM::Rand32> ("V3f/Rand32");
    testSamplers<IM::V4f, IM::Rand32> ("V4f/Rand32");
    testSamplers<IM::V2d, IM::Rand32> ("V2d/Rand32");
    testSamplers<IM::V3d, IM::Rand32> ("V3d/Rand32");
    testSamplers<IM::V4d, IM::Rand32> ("V4d/Rand32");
    testSamplers<IM::V2f, IM::Rand48> ("V2f/Rand48");
    testSamplers<IM::V3f, IM::Rand48> ("V3f/Rand48");
    testSamplers<IM::V4f, IM::Rand48> ("V4f/Rand48");
    testSamplers<IM::V2d, IM::Rand48> ("V2d/Rand48");
    testSamplers<IM::V3d, IM::Rand48> ("V3d/Rand48");
    testSamplers<IM::V4d, IM::Rand48> ("V4d/Rand48");

    std::printf ("%ld checks, %ld failures\n", g_checks, g_failures);
    std::printf (g_failures == 0 ? "DEMO PASS\n" : "DEMO FAIL\n");
    return g_failures == 0 ? 0 : 1;
}
