// Demonstration for seeded defect C18: solidSphereRand() must consume the
// generator exactly as documented: every candidate point takes
// Vec::dimensions() draws of nextf(-1,1); candidates outside the unit ball
// are rejected as a whole.  The generator position after a call (and hence
// every later value of the sequence) is therefore a fixed function of the seed.
//
// The check runs an independent model of that algorithm on a COPY of the
// generator and compares (a) the returned point and (b) the value the
// generator produces next.

#include <ImathRandom.h>
#include <ImathVec.h>
#include <cmath>
#include <cstdio>

using namespace IMATH_NAMESPACE;

template <class Vec, class Rand>
static Vec
modelSolidSphere (Rand& rand)
{
    Vec v;
    for (;;)
    {
        for (unsigned int i = 0; i < Vec::dimensions (); i++)
            v[i] = (typename Vec::BaseType) rand.nextf (-1, 1);
        if (!(v.length2 () > 1)) return v;
    }
}

static int failures = 0;

template <class Vec, class Rand>
static void
check (const char* what, int nSeeds, int nCalls)
{
    int bad = 0;
    for (int seed = 0; seed < nSeeds; ++seed)
    {
        Rand lib (seed);
        Rand ref (seed); // same seed => same sequence
        for (int call = 0; call < nCalls; ++call)
        {
            Vec p = solidSphereRand<Vec> (lib);
            Vec q = modelSolidSphere<Vec> (ref);

            bool inside = std::isfinite (double (p.length2 ())) &&
                          p.length2 () <= 1 + 1e-5;
            Rand   l2 (lib), r2 (ref); // peek at the next value on copies
            double nl = l2.nextf (), nr = r2.nextf ();

            if (!inside || !(p == q) || nl != nr)
            {
                if (bad < 3)
                    printf (
                        "FAIL %s seed=%d call#%d: point %s model, "
                        "next draw after the call = %.17g, expected %.17g "
                        "(generator left at a different position)\n",
                        what, seed, call, (p == q) ? "==" : "!=", nl, nr);
                ++bad;
                break; // sequences have diverged for this seed
            }
        }
    }
    printf ("%-34s %d of %d seeds diverge\n", what, bad, nSeeds);
    failures += bad;
}

int
main ()
{
    check<V2f, Rand32> ("solidSphereRand<V2f>(Rand32)", 200, 20);
    check<V3f, Rand32> ("solidSphereRand<V3f>(Rand32)", 200, 20);
    check<V3d, Rand48> ("solidSphereRand<V3d>(Rand48)", 200, 20);
    check<V4d, Rand48> ("solidSphereRand<V4d>(Rand48)", 200, 20);
    check<V3f, Rand32> ("first call only, V3f/Rand32", 200, 1);

    if (failures)
    {
        printf ("DEMO FAILED: solidSphereRand consumed a different number "
                "of draws than the documented rejection loop\n");
        return 1;
    }
    printf ("DEMO PASSED\n");
    return 0;
}
