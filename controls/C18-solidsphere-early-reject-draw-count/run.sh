#!/bin/sh
# Builds the library from the worktree (incremental) and the demo against it, then runs it.
# exit 0 = property holds (unchanged code), non-zero = defect demonstrated.
set -e
WT=/tmp/wt-c18l
B=$WT/_b
cmake -S $WT -B $B -G Ninja -DCMAKE_BUILD_TYPE=Release >/dev/null
cmake --build $B -j8 --target Imath >/dev/null
LIB=$(ls $B/src/Imath/libImath*.so | head -1)
g++ -std=c++17 -O2 -I$WT/src/Imath -I$B/config $WT/_seeded/demo.cpp "$LIB" -Wl,-rpath,$B/src/Imath -o $WT/_seeded/demo
exec $WT/_seeded/demo
